// C11 demo (native, no verifier): an HTTP-looking request head that never completes.
// Place in huginn-net-http/tests/ and run: cargo test --offline -p huginn-net-http --test c11_http_flow_growth_demo
// Before the fix the flow retains every payload byte it was ever given (and rebuilds + re-parses the
// whole stream per packet); after it, the bytes retained per direction stay under a fixed limit.
use huginn_net_http::http_process::{process_http_ipv4, FlowKey, HttpProcessors, TcpFlow};
use pnet::packet::ipv4::Ipv4Packet;
use std::alloc::{GlobalAlloc, Layout, System};
use std::sync::atomic::{AtomicIsize, Ordering};
use ttl_cache::TtlCache;

struct Counting;
static LIVE: AtomicIsize = AtomicIsize::new(0);
unsafe impl GlobalAlloc for Counting {
    unsafe fn alloc(&self, l: Layout) -> *mut u8 {
        LIVE.fetch_add(l.size() as isize, Ordering::SeqCst);
        System.alloc(l)
    }
    unsafe fn dealloc(&self, p: *mut u8, l: Layout) {
        LIVE.fetch_sub(l.size() as isize, Ordering::SeqCst);
        System.dealloc(p, l)
    }
}
#[global_allocator]
static A: Counting = Counting;

fn ipv4_tcp(seq: u32, flags: u8, payload: &[u8]) -> Vec<u8> {
    let total = 20 + 20 + payload.len();
    let mut p = vec![0u8; total];
    p[0] = 0x45;
    p[2..4].copy_from_slice(&(total as u16).to_be_bytes());
    p[8] = 64;
    p[9] = 6;
    p[12..16].copy_from_slice(&[10, 0, 0, 1]);
    p[16..20].copy_from_slice(&[10, 0, 0, 2]);
    p[20..22].copy_from_slice(&40000u16.to_be_bytes());
    p[22..24].copy_from_slice(&80u16.to_be_bytes());
    p[24..28].copy_from_slice(&seq.to_be_bytes());
    p[32] = 0x50;
    p[33] = flags;
    p[34..36].copy_from_slice(&65535u16.to_be_bytes());
    p[40..].copy_from_slice(payload);
    p
}

#[test]
fn endless_head_does_not_grow_the_flow() {
    let mut flows: TtlCache<FlowKey, TcpFlow> = TtlCache::new(16);
    let processors = HttpProcessors::new();
    let syn = ipv4_tcp(1000, 0x02, b"");
    process_http_ipv4(&Ipv4Packet::new(&syn).unwrap(), &mut flows, &processors).unwrap();
    let first = ipv4_tcp(1001, 0x18, b"GET / HTTP/1.1\r\nHost: example.com\r\n");
    process_http_ipv4(&Ipv4Packet::new(&first).unwrap(), &mut flows, &processors).unwrap();
    let mut seq = 1001 + 35;
    let line = [b"X-Filler: ".as_slice(), &[b'a'; 988], b"\r\n"].concat(); // 1000 bytes, never an empty line
    let mut retained_at = Vec::new();
    for i in 0..600 {
        let pkt = ipv4_tcp(seq, 0x18, &line);
        let r = process_http_ipv4(&Ipv4Packet::new(&pkt).unwrap(), &mut flows, &processors).unwrap();
        assert!(r.http_request.is_none());
        seq = seq.wrapping_add(line.len() as u32);
        if i == 99 || i == 599 {
            retained_at.push(LIVE.load(Ordering::SeqCst));
        }
    }
    let growth = retained_at[1] - retained_at[0];
    // 500 further packets of 1000 bytes: a bounded flow retains none of them
    assert!(growth < 100_000, "flow retained {growth} further bytes over 500 packets of 1000 bytes");
}
