use huginn_net_http::packet_hash::hash_flow;
fn frame(src: [u8; 4], dst: [u8; 4], sp: u16, dp: u16) -> Vec<u8> {
    let mut f = vec![0u8; 14 + 20 + 20];
    f[12] = 0x08; f[13] = 0x00;
    f[14] = 0x45; f[14 + 9] = 6;
    f[14 + 12..14 + 16].copy_from_slice(&src);
    f[14 + 16..14 + 20].copy_from_slice(&dst);
    f[34..36].copy_from_slice(&sp.to_be_bytes());
    f[36..38].copy_from_slice(&dp.to_be_bytes());
    f
}
#[test]
fn both_directions_of_a_connection_reach_the_same_worker() {
    let mut split = 0;
    for port in 40000u16..40064 {
        let req = frame([10, 0, 0, 1], [10, 0, 0, 2], port, 80);
        let resp = frame([10, 0, 0, 2], [10, 0, 0, 1], 80, port);
        if hash_flow(&req, 8) != hash_flow(&resp, 8) { split += 1; }
    }
    assert_eq!(split, 0, "{split} of 64 connections have request and response on different workers");
}
