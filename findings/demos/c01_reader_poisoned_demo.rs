use huginn_net_tls::tls_client_hello_reader::TlsClientHelloReader;
/// C01: after an input that fails to parse, the same reader handles a following well-formed
/// ClientHello exactly as a fresh reader would
#[test]
fn reader_is_not_poisoned_by_a_malformed_record() {
    // a handshake record (type 0x16) whose body is not a valid handshake message
    let bad = [0x16u8, 0x03, 0x01, 0x00, 0x04, 0x01, 0xff, 0xff, 0xff];
    // minimal well-formed ClientHello record
    let mut body = vec![0x03u8, 0x03];
    body.extend_from_slice(&[0u8; 32]); // random
    body.push(0); // session id
    body.extend_from_slice(&[0x00, 0x02, 0x13, 0x01]); // one cipher suite
    body.extend_from_slice(&[0x01, 0x00]); // compression
    let mut hs = vec![0x01u8, 0x00, 0x00, body.len() as u8];
    hs.extend_from_slice(&body);
    let mut good = vec![0x16u8, 0x03, 0x01, 0x00, hs.len() as u8];
    good.extend_from_slice(&hs);

    let mut fresh = TlsClientHelloReader::new();
    assert!(matches!(fresh.add_bytes(&good), Ok(Some(_))), "reference: a fresh reader parses the record");

    let mut r = TlsClientHelloReader::new();
    assert!(r.add_bytes(&bad).is_err());
    assert!(matches!(r.add_bytes(&good), Ok(Some(_))), "reader is poisoned by the earlier malformed record");
}
