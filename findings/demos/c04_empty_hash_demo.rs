use huginn_net_tls::tls::{Signature, TlsVersion};
#[test]
fn empty_lists_hash_to_zeros() {
    let sig = Signature { version: TlsVersion::V1_2, cipher_suites: vec![], extensions: vec![], elliptic_curves: vec![],
        elliptic_curve_point_formats: vec![], signature_algorithms: vec![], sni: None, alpn: None };
    assert_eq!(sig.generate_ja4().full.value(), "t12i000000_000000000000_000000000000");
}
