use huginn_net_http::akamai_extractor::extract_akamai_fingerprint_from_bytes;
use huginn_net_http::http2_fingerprint_extractor::Http2FingerprintExtractor;
/// C17: incremental extraction must equal the one-shot fingerprint of the bytes received so far
#[test]
fn incremental_equals_one_shot_when_a_frame_precedes_settings() {
    // PRIORITY frame on stream 3 (exclusive, depends on 1, weight 200), then SETTINGS {3: 100}
    let priority = [0x00u8, 0x00, 0x05, 0x02, 0x00, 0x00, 0x00, 0x00, 0x03, 0x80, 0x00, 0x00, 0x01, 200];
    let settings = [0x00u8, 0x00, 0x06, 0x04, 0x00, 0x00, 0x00, 0x00, 0x00, 0x00, 0x03, 0x00, 0x00, 0x00, 0x64];
    let mut all = priority.to_vec();
    all.extend_from_slice(&settings);
    let one_shot = extract_akamai_fingerprint_from_bytes(&all).expect("one-shot fingerprint");

    let mut x = Http2FingerprintExtractor::new();
    assert!(x.add_bytes(&priority).unwrap().is_none());
    let inc = x.add_bytes(&settings).unwrap().expect("incremental fingerprint");
    assert_eq!(inc.fingerprint, one_shot.fingerprint);
}
