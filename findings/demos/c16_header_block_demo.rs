use huginn_net_http::http2_parser::{Http2Parser, HTTP2_CONNECTION_PREFACE};

/// C16: the reported request must be that of the encoded header list for any legal use of
/// padding, the priority fields and CONTINUATION frames (RFC 7540 §6.2, §6.10).
fn frame(ty: u8, flags: u8, stream: u32, payload: &[u8]) -> Vec<u8> {
    let mut f = vec![
        (payload.len() >> 16) as u8,
        (payload.len() >> 8) as u8,
        payload.len() as u8,
        ty,
        flags,
    ];
    f.extend_from_slice(&stream.to_be_bytes());
    f.extend_from_slice(payload);
    f
}

// :method GET (0x82), :scheme https (0x87), :path / (0x84), :authority literal "a.example"
fn block() -> Vec<u8> {
    let mut b = vec![0x82, 0x87, 0x84, 0x01, 0x09];
    b.extend_from_slice(b"a.example");
    b
}

fn parse(frames: &[Vec<u8>]) -> (String, String, Option<String>) {
    let mut data = HTTP2_CONNECTION_PREFACE.to_vec();
    data.extend_from_slice(&frame(0x4, 0, 0, &[]));
    for f in frames {
        data.extend_from_slice(f);
    }
    let req = Http2Parser::new()
        .parse_request(&data)
        .expect("no parse error")
        .expect("a request");
    (req.method, req.path, req.authority)
}

fn expected() -> (String, String, Option<String>) {
    ("GET".to_string(), "/".to_string(), Some("a.example".to_string()))
}

#[test]
fn plain_headers_frame() {
    assert_eq!(parse(&[frame(0x1, 0x4, 1, &block())]), expected());
}

#[test]
fn headers_with_priority_fields() {
    // what Chrome sends: END_HEADERS | PRIORITY, exclusive dependency on stream 0, weight 255
    let mut p = vec![0x80, 0x00, 0x00, 0x00, 0xff];
    p.extend_from_slice(&block());
    assert_eq!(parse(&[frame(0x1, 0x4 | 0x20, 1, &p)]), expected());
}

#[test]
fn padded_headers() {
    let mut p = vec![3u8];
    p.extend_from_slice(&block());
    p.extend_from_slice(&[0, 0, 0]);
    assert_eq!(parse(&[frame(0x1, 0x4 | 0x8, 1, &p)]), expected());
}

#[test]
fn block_split_inside_a_field_across_continuation() {
    let b = block();
    let (h, c) = b.split_at(8); // cut inside the literal authority value
    assert_eq!(parse(&[frame(0x1, 0x0, 1, h), frame(0x9, 0x4, 1, c)]), expected());
}
