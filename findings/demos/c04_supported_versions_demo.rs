use huginn_net_tls::tls::TlsVersion;
use huginn_net_tls::tls_process::extract_tls_signature_from_client_hello;
use tls_parser::{TlsCipherSuiteID, TlsClientHelloContents, TlsCompressionID};
#[test]
fn version_is_highest_non_grease_supported_version() {
    // supported_versions = [GREASE 0x0a0a, TLS 1.2]: a 1.2 client although the extension is present
    let ext = [0x00u8, 0x2b, 0x00, 0x05, 0x04, 0x0a, 0x0a, 0x03, 0x03];
    let random = [0u8; 32];
    let ch = TlsClientHelloContents::new(0x0303, &random, None, vec![TlsCipherSuiteID(0x1301)], vec![TlsCompressionID(0)], Some(&ext));
    let sig = extract_tls_signature_from_client_hello(&ch).unwrap();
    assert_eq!(sig.version, TlsVersion::V1_2);
    // unknown legacy version without the extension is unknown
    let ch2 = TlsClientHelloContents::new(0x0305, &random, None, vec![TlsCipherSuiteID(0x1301)], vec![TlsCompressionID(0)], None);
    assert_eq!(extract_tls_signature_from_client_hello(&ch2).unwrap().version, TlsVersion::Unknown(0x0305));
}
