use huginn_net_db::db_matching_trait::{DatabaseSignature, FingerprintDb};
use huginn_net_db::http::Version;
use huginn_net_db::observable_signals::HttpRequestObservation;
use huginn_net_db::Database;

/// C02: the index must not hide an entry that an exhaustive scan accepts
#[test]
fn wildcard_version_signature_is_found_for_http2_observation() {
    let db = Database::load_default().expect("db");
    // take the first wildcard-version request signature of the bundled database and observe exactly it over HTTP/2
    let (label, sig) = db.http_request.entries.iter().flat_map(|(l, sigs)| sigs.iter().map(move |s| (l, s)))
        .find(|(_, s)| s.version == Version::Any).expect("a wildcard signature");
    let obs = HttpRequestObservation {
        version: Version::V20,
        horder: sig.horder.iter().filter(|h| !h.optional).cloned().collect(),
        habsent: sig.habsent.clone(),
        expsw: sig.expsw.clone(),
    };
    // exhaustive scan accepts it with distance 0
    assert_eq!(sig.calculate_distance(&obs), Some(0), "scan accepts {}", label.name);
    // ... but the indexed lookup must find something too
    assert!(db.http_request.find_best_match(&obs).is_some(), "index hides every entry for an HTTP/2 observation");
}
