"""Per-property driver: builds units from /repo, runs Verus / Kani, decides, writes evidence."""
import concurrent.futures as cf
import json
import os
import re
import shutil
import sys
import time
import tomllib

from . import kani as K
from .rustsrc import LostAnchor, Unsupported
from .verus import run_verus
from .weave import Weaver

VERIF = os.path.dirname(os.path.dirname(os.path.abspath(__file__)))
REPO = os.environ.get('VX_REPO', '/repo')
WORK = os.environ.get('VX_WORK', os.path.join(VERIF, 'work'))
EVID = os.environ.get('VX_EVIDENCE', os.path.join(VERIF, 'evidence'))  # seeded runs write elsewhere
TRUST_RX = re.compile(r'external_body|assume_specification|admit\s*\(|assume\s*\(|external_type_specification|external_fn_specification|\baxiom\b|#\[verifier::external\]')


SAFETY_PAT = re.compile(r'precondition not (?:met|satisfied)|arithmetic|overflow|underflow|division by zero|bit shift|decreases|termination|index|nonnegative', re.I)


class Undecided(Exception):
    pass


def load_known():
    p = os.path.join(VERIF, 'known_findings.json')
    if not os.path.exists(p):
        return {'findings': [], 'fixed': []}
    return json.load(open(p))


def trusted_items(text):
    """Mechanical scan: every trusted declaration in a generated unit."""
    items = []
    lines = text.split('\n')
    for i, l in enumerate(lines):
        if l.strip().startswith('//'):
            continue
        if TRUST_RX.search(l):
            # name = next fn/struct/assume_specification target within 4 lines
            ctx = ' '.join(x.strip() for x in lines[i:i + 5])
            m = re.search(r'assume_specification\s*(?:<[^>]*>)?\s*\[\s*([^\]]+?)\s*\]', ctx) or \
                re.search(r'\b(?:fn|struct|enum)\s+([A-Za-z0-9_]+)', ctx)
            kind = TRUST_RX.search(l).group(0).strip('( ')
            items.append(f'{kind}: {m.group(1).strip() if m else ctx[:60]}')
    return sorted(set(items))


class PropertyRun:
    def __init__(self, pid, tier, seed):
        self.pid = pid
        self.tier = tier
        self.seed = seed
        self.spec = tomllib.load(open(os.path.join(VERIF, 'props', f'{pid}.toml'), 'rb'))
        self.known = load_known()
        self.work = os.path.join(WORK, pid)
        shutil.rmtree(self.work, ignore_errors=True)
        os.makedirs(self.work, exist_ok=True)
        self.obligations = []        # dicts
        self.bounded = []
        self.violations = []         # dicts: obligation, replay, detail
        self.known_hits = []
        self.undecided = []          # strings
        self.bad_units = set()       # units whose own run had a tool problem
        self.notes = []
        self.functions = []
        self.rewrites = []
        self.trusted = set()
        self.cmds = []
        self.solver_s = 0.0
        self.t0 = time.time()

    # ------------------------------------------------------------------ Verus
    def run_verus_unit(self, name):
        w = Weaver(REPO, os.path.join(VERIF, 'contracts'))
        spec_path = os.path.join(VERIF, 'contracts', f'{name}.toml')
        u = w.build(spec_path)
        path = os.path.join(self.work, f'{name}.rs')
        open(path, 'w').write(u.text)
        variants = u.spec.get('variant', [])
        rlimit = u.spec.get('rlimit', 40)
        jobs = [('main', path, None)]
        for v in variants:
            if v.get('tier', 'quick') == 'thorough' and self.tier != 'thorough':
                continue
            if v.get('kind') == 'known' and not v['known'].startswith(self.pid + '.'):
                continue  # finding of another property that shares this unit
            t = u.text
            for old, new in v['replace']:
                if old not in t:
                    raise LostAnchor(f'{name}: variant {v["name"]} anchor {old[:50]!r} not found in generated unit')
                t = t.replace(old, new, 1)
            if v.get('append'):
                t = t.replace('} // verus!', v['append'] + '\n} // verus!')
            vp = os.path.join(self.work, f'{name}__{v["name"]}.rs')
            open(vp, 'w').write(t)
            jobs.append((v['name'], vp, v))
        with cf.ThreadPoolExecutor(max_workers=4) as ex:
            futs = {ex.submit(run_verus, p, rlimit, 6): (n, p, v) for n, p, v in jobs}
            results = {futs[f][0]: (f.result(), futs[f][2]) for f in cf.as_completed(futs)}
        main, _ = results['main']
        self.cmds.append(main.cmd)
        self.solver_s += main.smt_ms / 1000.0
        self.functions += u.functions
        self.rewrites += [list(r) for r in u.rewrites]
        self.trusted |= set(trusted_items(u.text))
        if main.tool_errors:
            self.bad_units.add(name)
            for e in main.tool_errors[:3]:
                self.undecided.append(f'verus unit {name}: {e["message"]} (line {e["line"]}, {u.tag_at(e["line"])})\n{e["rendered"][:1500]}')
        # obligations: one per function / lemma query that Verus ran
        failed_tags = {}
        for f in main.failures:
            tags = [u.tag_at(l) for l in f['lines'] if u.tag_at(l)]
            tag = None
            for t in tags:
                if t and not t.startswith('prelude'):
                    tag = t
            tag = tag or (tags[0] if tags else f'{name}.?')
            failed_tags.setdefault(tag, []).append(f)
        for fn in main.functions:
            short = fn['name'].split('::', 1)[-1] if fn['name'] else '?'
            ob = {'id': f'{self.pid}.{name}.{short}', 'backend': 'verus', 'kind': 'V', 'ok': bool(fn['success']),
                  'time_s': (fn['time_us'] or 0) / 1e6, 'mode': fn['mode']}
            self.obligations.append(ob)
        if not main.functions and not main.tool_errors:
            self.undecided.append(f'verus unit {name}: zero obligations generated (vacuous run)')
        expected = u.spec.get('expected_queries')
        if expected is not None and main.functions and len(main.functions) < expected:
            self.undecided.append(f'verus unit {name}: only {len(main.functions)} queries, contracts expect >= {expected} (silently skipped function?)')
        policy = self.spec.get('verus_policy', {})
        for tag, fs in failed_tags.items():
            # safety obligations (index, slice, arithmetic, termination, callee preconditions) vs the function's
            # own functional clauses (ensures / invariant / assert)
            safety = [x for x in fs if SAFETY_PAT.search(x['message'])]
            f = (safety or fs)[0]
            is_lemma = '.lemmas' in tag
            fn_id = tag.split('.')[-1]
            if not safety and not is_lemma and fn_id in policy.get('ignore_functional', {}).get(name, []):
                self.notes.append(f'functional contract of {tag} no longer verifies ({f["message"]}); it belongs to another property and {self.pid} does not depend on it')
                continue
            own = policy.get('own_functional', {})
            if not safety and not is_lemma and name in own and fn_id not in own[name]:
                self.undecided.append(f'verus unit {name}: functional contract of {tag} (it serves another property) no longer verifies '
                                      f'({f["message"]}); what {self.pid} derives from it is void')
                continue
            if name in policy.get('safety_only_units', []) and not safety and not is_lemma:
                # this property is decided by the safety obligations of the unit; its functional contract serves
                # another property.  When that contract fails, callers were checked against a contract that no
                # longer holds, so their safety proofs are void: undecided, never an alarm for this property.
                self.undecided.append(f'verus unit {name}: functional contract of {tag} (it serves another property) no longer verifies '
                                      f'({f["message"]}); the safety proofs that rely on it are void for {self.pid}')
                continue
            self.violations.append({'obligation': f'{self.pid}.{tag}', 'backend': 'verus', 'message': f['message'],
                                    'detail': '\n'.join(x['rendered'] for x in fs)[:6000], 'unit': name,
                                    'functional': not safety and not is_lemma,
                                    'pair': (u.spec.get('pair', {}) or {}).get(tag.split('.', 1)[-1])})
        # frame scans: a representation invariant proved on the functions that write a field carries to the
        # whole file only if nothing else writes it; every mention of the field must have a listed shape.
        for fr in u.spec.get('frame', []):
            from vx.rustsrc import mask
            src = open(os.path.join(REPO, fr['file'])).read()
            mk = mask(src).splitlines()
            raw = src.splitlines()
            pat = re.compile(fr['mentions'])
            allowed = [re.compile(a) for a in fr['allowed']]
            hits, bad = 0, []
            for ln, (m, r) in enumerate(zip(mk, raw), 1):
                if pat.search(m):
                    hits += 1
                    if not any(a.search(r.strip()) for a in allowed):
                        bad.append(f'{fr["file"]}:{ln}: {r.strip()}')
            if bad:
                self.undecided.append(f'verus unit {name}: frame scan "{fr.get("what", fr["mentions"])}" found a use of the field with no listed shape, the invariant no longer carries to the file: ' + '; '.join(bad[:4]))
            elif hits < fr.get('min_hits', 1):
                self.undecided.append(f'verus unit {name}: frame scan "{fr.get("what", fr["mentions"])}" found {hits} mentions (lost anchor)')
            else:
                self.notes.append(f'frame scan {name}: {hits} mentions of /{fr["mentions"]}/ in {fr["file"]}, all of a listed shape ({fr.get("what", "")})')
        # variants: canaries must fail; known-finding probes
        for vn, (res, v) in results.items():
            if v is None:
                continue
            self.solver_s += res.smt_ms / 1000.0
            failed = bool(res.failures)
            if res.tool_errors and not failed:
                self.undecided.append(f'verus unit {name} variant {vn}: tool error {res.tool_errors[0]["message"]}\n{res.tool_errors[0]["rendered"][:800]}')
                continue
            if v.get('kind', 'canary') == 'canary':
                if not failed:
                    self.undecided.append(f'verus unit {name}: canary {vn} verified — contracts are vacuous or too weak ({v.get("what", "")})')
                else:
                    self.notes.append(f'canary {name}.{vn} rejected as required ({res.failures[0]["message"]})')
            elif v['kind'] == 'known':
                kid = v['known']
                entry = next((k for k in self.known['findings'] if k['id'] == kid), None)
                if failed and entry:
                    self.known_hits.append((kid, entry['summary']))
                elif failed and not entry:
                    self.violations.append({'obligation': f'{self.pid}.{name}.{vn}', 'backend': 'verus',
                                            'message': res.failures[0]['message'],
                                            'detail': res.failures[0]['rendered'][:4000], 'unit': name, 'pair': v.get('pair')})
                else:
                    self.notes.append(f'known finding {kid} no longer reproduces: unrestricted obligation {name}.{vn} verified')
        return u

    # ------------------------------------------------------------------ Kani
    def run_kani_units(self, names):
        units = [K.KaniUnit(os.path.join(VERIF, 'contracts', 'kani', f'{n}.toml')) for n in names]
        # one Kani phase at a time per build cache: cargo maps every scratch copy of the workspace to
        # the same cached units, so concurrent checks must not interleave their builds
        import fcntl
        os.makedirs(os.path.dirname(K.TARGET_DIR), exist_ok=True)
        lock = open(K.TARGET_DIR + '.lock', 'w')
        fcntl.flock(lock, fcntl.LOCK_EX)
        try:
            self._run_kani_units_locked(units)
        finally:
            fcntl.flock(lock, fcntl.LOCK_UN)
            lock.close()

    def _run_kani_units_locked(self, units):
        # group by whether ttl_cache patch is needed (changes the dependency graph)
        for patch in (False, True):
            group = [u for u in units if u.patch_ttl_cache == patch]
            if not group:
                continue
            sc = K.Scratch(REPO, f'{self.pid}{"-ttl" if patch else ""}')
            try:
                sc.create(patch_ttl_cache=patch)
                for u in group:
                    sc.apply_unit(u)
                for u in group:
                    hs = [h for h in u.harnesses if (h.tier == 'quick' or self.tier == 'thorough')
                          and (h.obligation.startswith(self.pid + '.') or self.pid in h.also)]
                    if not hs:
                        continue
                    info = K.run_unit(sc, u, hs, self.work)
                    self.cmds.append(info['cmd'])
                    if info.get('build_error'):
                        self.bad_units.add(u.name)
                        self.undecided.append(f'kani unit {u.name}: build/tool error\n{info["build_error"][:3000]}')
                        continue
                    self.functions += [{'file': f.get('file'), 'item': f.get('item'), 'backend': 'kani', 'has_contract': f.get('contract', False)} for f in u.functions]
                    # trusted base of the Kani route, scanned mechanically from the harness modules
                    self.trusted.add('kani: tracing replaced by the no-op crate stubs/tracing (log macros assumed effect-free)')
                    if u.patch_ttl_cache:
                        self.trusted.add('kani: ttl_cache replaced by the Vec-backed stand-in stubs/ttl_cache (assumed contract on a dependency)')
                    for a in u.appends:
                        body = open(os.path.join(VERIF, 'contracts', 'kani', a['module'])).read()
                        for m in re.finditer(r'kani::stub\(\s*([^,\s]+)\s*,\s*([^)\s]+)\s*\)', body):
                            self.trusted.add(f'kani::stub: {m.group(1)} -> {m.group(2)} ({a["module"]})')
                    self.digest_kani(sc, u, hs)
            finally:
                sc.remove()

    def digest_kani(self, sc, u, hs):
        for h in hs:
            oid = h.obligation
            rec = {'id': oid, 'backend': 'kani/cbmc', 'kind': h.kind, 'harness': h.name, 'unit': u.name,
                   'result': h.result, 'checks': h.checks, 'time_s': h.time_s, 'bound': h.bound, 'what': h.what, 'assumes': h.assumes}
            if h.result in ('timeout', 'error', 'missing'):
                if h.expect == 'fail':
                    self.undecided.append(f'kani canary {u.name}:{h.name} -> {h.result}')
                else:
                    self.undecided.append(f'kani harness {u.name}:{h.name} ({oid}) -> {h.result} (never an alarm)')
                continue
            if h.expect == 'fail':
                if h.result == 'pass':
                    self.undecided.append(f'kani canary {u.name}:{h.name} verified — harness is vacuous ({h.what})')
                else:
                    self.notes.append(f'canary {u.name}:{h.name} refuted as required')
                continue
            if h.expect == 'known':
                entry = next((k for k in self.known['findings'] if k['id'] == h.known), None)
                if h.result == 'fail' and entry:
                    self.known_hits.append((h.known, entry['summary']))
                elif h.result == 'fail':
                    self.kani_violation(sc, u, h, rec)
                else:
                    self.notes.append(f'known finding {h.known} no longer reproduces: unrestricted obligation {oid} verified')
                continue
            rec['ok'] = h.result == 'pass'
            if h.kind == 'Kb':
                self.bounded.append(rec)
            else:
                self.obligations.append(rec)
            if h.result == 'fail':
                self.kani_violation(sc, u, h, rec)

    def kani_violation(self, sc, u, h, rec):
        pb = K.playback(sc, u, h, self.work)
        self.violations.append({'obligation': h.obligation, 'backend': 'kani', 'message': '; '.join(c['msg'] for c in h.failed_checks[:4]) or 'verification failed',
                                'detail': json.dumps(h.failed_checks[:6]), 'unit': u.name, 'playback': pb, 'harness': h.name, 'what': h.what})

    def find_input_for_verus_failure(self, v):
        """Verus gives no model: run the paired Kani harness of the obligation to search for a failing input."""
        pair = v.get('pair')
        if not pair:
            return None
        uname, hname = pair.split(':')
        u = K.KaniUnit(os.path.join(VERIF, 'contracts', 'kani', f'{uname}.toml'))
        hs = [h for h in u.harnesses if h.name == hname]
        if not hs:
            return None
        sc = K.Scratch(REPO, f'{self.pid}-pair')
        import fcntl
        lock = open(K.TARGET_DIR + '.lock', 'w')
        fcntl.flock(lock, fcntl.LOCK_EX)
        try:
            sc.create(patch_ttl_cache=u.patch_ttl_cache)
            sc.apply_unit(u)
            info = K.run_unit(sc, u, hs, self.work)
            if hs[0].result == 'fail':
                return K.playback(sc, u, hs[0], self.work)
        except Exception as e:  # never turn a search failure into an alarm of its own
            self.notes.append(f'paired search for {v["obligation"]} failed: {e}')
        finally:
            sc.remove()
            fcntl.flock(lock, fcntl.LOCK_UN)
            lock.close()
        return None

    # ------------------------------------------------------------------ main
    def run(self):
        spec = self.spec
        # a unit that cannot be built (lost anchor, construct outside the subset) is undecided on its
        # own; the other units of the property still run and their refutations stand
        for name in spec.get('verus_units', []):
            try:
                self.run_verus_unit(name)
            except LostAnchor as e:
                self.bad_units.add(name)
                self.undecided.append(f'verus unit {name}: lost anchor: {e}')
            except Unsupported as e:
                self.bad_units.add(name)
                self.undecided.append(f'verus unit {name}: construct outside the extractable subset: {e}')
        kn = list(spec.get('kani_units', []))
        if self.tier == 'thorough':
            kn += spec.get('kani_units_thorough', [])
        if kn:
            try:
                self.run_kani_units(kn)
            except LostAnchor as e:
                self.undecided.append(f'kani units: lost anchor: {e}')
        # gated units: their functional contracts are an intermediate description of the code (e.g. "which IP view the
        # parser selects"), not the property.  A change may move code and description consistently on both sides
        # of a relational property; such a failure counts as a violation only if the end-to-end check of the
        # property on the real code (the gate obligations) does not pass.
        gates = self.spec.get('verus_policy', {}).get('gated_units', {})
        if gates:
            results = {o['id']: o.get('ok') for o in self.obligations + self.bounded if str(o.get('backend', '')).startswith('kani')}
            keep = []
            for v in self.violations:
                g = gates.get(v.get('unit'))
                if v['backend'] == 'verus' and g and v.get('functional'):
                    if all(results.get(x) is True for x in g):
                        self.undecided.append(f'verus unit {v["unit"]}: intermediate contract {v["obligation"]} no longer verifies ({v["message"]}) '
                                              f'but the end-to-end obligations {", ".join(g)} pass on the real code: contract out of date, or a '
                                              f'violation beyond their bound: undecided')
                        continue
                keep.append(v)
            self.violations = keep
        # trusted-base allow-list
        allow_p = os.path.join(VERIF, 'contracts', 'trusted_allow.json')
        allow = json.load(open(allow_p)) if os.path.exists(allow_p) else {}
        extra = sorted(self.trusted - set(allow.get(self.pid, [])))
        if os.environ.get('VX_UPDATE_TRUSTED'):
            # union, so that refreshing under the quick tier does not drop what only the thorough tier uses
            allow[self.pid] = sorted(set(allow.get(self.pid, [])) | self.trusted)
            json.dump(allow, open(allow_p, 'w'), indent=1, sort_keys=True)
            extra = []
        if extra:
            self.undecided.append('trusted base grew beyond the committed allow-list: ' + '; '.join(extra))
        return self.finish()

    def finish(self):
        pid = self.pid
        os.makedirs(os.path.join(EVID, 'replay'), exist_ok=True)
        lines = []
        real_violations = []
        for v in self.violations:
            rp = os.path.join(EVID, 'replay', f'{v["obligation"].replace("/", "_")}.json')
            pb = v.get('playback')
            if v.get('unit') in self.bad_units:
                continue
            if v['backend'] == 'verus':
                pb = self.find_input_for_verus_failure(v)
            found = bool(pb and pb.get('test_src'))
            json.dump({'property': pid, 'obligation': v['obligation'], 'backend': v['backend'], 'message': v['message'],
                       'verifier_output': v['detail'], 'counterexample': pb, 'failing_input_found': found,
                       'rerun': f'cd /verif && ./check {pid} --tier {self.tier}'}, open(rp, 'w'), indent=1)
            v['replay'] = rp
            v['found'] = found
            real_violations.append(v)
        n_ob = len(self.obligations)
        n_ok = sum(1 for o in self.obligations if o.get('ok'))
        status = 0
        if self.undecided:
            status = 2
        if real_violations:
            # refutations from units that ran cleanly stand even if another unit was undecided
            status = 1
        if n_ob == 0 and not self.bounded and status == 0:
            self.undecided.append('zero obligations generated')
            status = 2
        wall = time.time() - self.t0
        spec = self.spec
        samples = [{'obligation': o['id'], 'backend': o['backend'], 'kind': o['kind'], 'ok': o.get('ok'),
                    **({'what': o['what']} if o.get('what') else {})} for o in self.obligations[:400]]
        ev = {
            'property_id': pid, 'tier': self.tier, 'seed': self.seed, 'level': spec.get('level', 'proof'),
            'coverage': {
                'obligations': n_ob, 'discharged': n_ok,
                'checker_cmd': ' && '.join(dict.fromkeys(self.cmds))[:4000] or 'none',
                'trusted_base': sorted(self.trusted) + spec.get('trusted_extra', []),
                'exhaustive': False,
                'samples': samples,
                'functions_under_contract': self.functions,
                'bounded_checks': self.bounded,
                'bounded_checks_note': 'Kb harnesses: bounded stand-ins with the stated bound; never counted in obligations/discharged',
                'rewrite_rule_applications': self.rewrites,
                'solver_time_s': round(self.solver_s + sum((o.get('time_s') or 0) for o in self.obligations if o['backend'] != 'verus'), 3),
                'not_covered': spec.get('not_covered', []),
                'known_findings_reproduced': [k for k, _ in self.known_hits],
                'notes': self.notes,
                'undecided': self.undecided,
                'explanation': spec.get('explanation', ''),
            },
            'assumptions': spec.get('assumptions', []),
            'wall_s': round(wall, 2),
            'violations': len(real_violations) if status == 1 else 0,
        }
        json.dump(ev, open(os.path.join(EVID, f'{pid}.json'), 'w'), indent=1)
        for kid, summ in dict(self.known_hits).items():
            print(f'KNOWN-FINDING: property={pid} {kid}: {summ}')
        for n in self.notes:
            print(f'note: {n}')
        if self.undecided:
            for u in self.undecided:
                print(f'UNDECIDED property={pid}: {u}', file=sys.stderr)
        if status == 1:
            for v in real_violations:
                tail = '' if v['found'] else ' no-failing-input-found'
                print(f'obligation {v["obligation"]} refuted: {v["message"]}')
                print(f'VIOLATION property={pid} replay={v["replay"]}{tail}')
        n_bok = sum(1 for b in self.bounded if b.get('ok'))
        print(f'{pid}: {n_ok}/{n_ob} obligations discharged, {n_bok}/{len(self.bounded)} bounded checks passed, '
              f'{len(self.known_hits)} known findings, status={status}, {wall:.1f}s')
        return status
