"""Build a single-file Verus unit from /repo sources + a contracts TOML.

Executable tokens are taken verbatim from /repo; the only edits are the
mechanical rewrite rules R0..R7 (each application is logged) and the insertion
of specification text (requires/ensures/invariants/proof hints) at anchors.
"""
import os
import re
import tomllib

from .rustsrc import mask, find_item, find_loops, find_body_open, match_close, LostAnchor, Unsupported

LOG_MACROS = ('debug', 'trace', 'info', 'warn', 'error')


class Piece:
    def __init__(self, text, tag=None):
        self.text, self.tag = text, tag


class Unit:
    def __init__(self):
        self.pieces = []
        self.rewrites = []      # (rule, file, line, detail)
        self.functions = []     # dicts: file,item,backend
        self.clauses = []       # woven clause tags
        self.text = ''
        self.linemap = []       # (first_line, last_line, tag)

    def add(self, text, tag=None):
        if not text.endswith('\n'):
            text += '\n'
        self.pieces.append(Piece(text, tag))

    def finish(self):
        line = 1
        out = []
        for p in self.pieces:
            n = p.text.count('\n')
            if p.tag:
                self.linemap.append((line, line + n - 1, p.tag))
            out.append(p.text)
            line += n
        self.text = ''.join(out)
        return self.text

    def tag_at(self, line):
        best = None
        for a, b, t in self.linemap:
            if a <= line <= b:
                if best is None or (b - a) < (best[1] - best[0]):
                    best = (a, b, t)
        return best[2] if best else None


def lineno(src, idx):
    return src.count('\n', 0, idx) + 1


def r1_drop_trace(text, log, file, base_line):
    """Delete statements that are exactly one logging macro call."""
    while True:
        msk = mask(text)
        m = None
        for mm in re.finditer(r'(?<![A-Za-z0-9_:])(?:tracing::)?(' + '|'.join(LOG_MACROS) + r')!\s*\(', msk):
            # must be in statement position
            k = mm.start() - 1
            while k >= 0 and msk[k] in ' \t\n':
                k -= 1
            if k >= 0 and msk[k] not in ';{}':
                raise Unsupported(f'log macro in expression position at {file}:{base_line + text.count(chr(10), 0, mm.start())}')
            m = mm
            break
        if not m:
            return text
        close = match_close(msk, m.end() - 1)
        args = text[m.end():close]
        amask = msk[m.end():close]
        if re.search(r'&mut\b', amask) or re.search(r'(?<![=!<>])=(?![=>])', amask):
            raise Unsupported(f'log macro with side-effecting argument at {file}')
        j = close + 1
        while j < len(text) and text[j] in ' \t':
            j += 1
        if j < len(text) and text[j] == ';':
            j += 1
        else:
            # allowed as last statement of a block (unit value)
            k = j
            while k < len(msk) and msk[k] in ' \t\n':
                k += 1
            if k >= len(msk) or msk[k] != '}':
                raise Unsupported(f'log macro used as value at {file}')
        log.append(('R1', file, base_line + text.count('\n', 0, m.start()), m.group(1) + '!'))
        # also swallow the rest of the line if blank
        text = text[:m.start()] + text[j:]


R2_MAP = [
    ('u16::from_be_bytes(', 'vx_u16_from_be_bytes('),
    ('u32::from_be_bytes(', 'vx_u32_from_be_bytes('),
    ('u32::from_ne_bytes(', 'vx_u32_from_ne_bytes('),
]


def r2_be_bytes(text, log, file, base_line):
    for a, b in R2_MAP:
        idx = 0
        while True:
            k = text.find(a, idx)
            if k < 0:
                break
            log.append(('R2', file, base_line + text.count('\n', 0, k), a))
            text = text[:k] + b + text[k + len(a):]
            idx = k + len(b)
    return text


def r3_for_ref_tuple(text, log, file, base_line):
    rx = re.compile(r'for\s+&\(([a-z_0-9]+),\s*([a-z_0-9]+)\)\s+in\s+([a-z_0-9]+)(?:(\s.*?)/\*vx-body\*/|(\s*))\{', re.S)
    m = rx.search(text)
    while m:
        a, b, xs = m.group(1), m.group(2), m.group(3)
        rep = f'for vx_i in 0..{xs}.len(){m.group(4) or " "}{{ let ({a}, {b}) = {xs}[vx_i];'
        log.append(('R3', file, base_line + text.count('\n', 0, m.start()), m.group(0)))
        text = text[:m.start()] + rep + text[m.end():]
        m = rx.search(text, m.start() + len(rep))
    return text


DROP_ATTR = re.compile(r'^[ \t]*#\[(must_use|inline(\([a-z]*\))?|doc\(hidden\)|allow\([^\]]*\)|error\([^\]]*\))\][ \t]*\n', re.M)
DOC_LINE = re.compile(r'^[ \t]*///.*\n', re.M)


def r4_attrs(text, log, file, base_line, derive_keep=None):
    n = len(DROP_ATTR.findall(text)) + len(DOC_LINE.findall(text))
    text = DROP_ATTR.sub('', text)
    text = DOC_LINE.sub('', text)

    def fix_derive(m):
        names = [x.strip() for x in m.group(1).split(',') if x.strip()]
        keep = [x for x in names if x in (derive_keep if derive_keep is not None else ('Clone', 'Copy', 'PartialEq', 'Eq'))]
        return (m.group(0).split('#')[0] + '#[derive(' + ', '.join(keep) + ')]\n') if keep else ''
    text2 = re.sub(r'^[ \t]*#\[derive\(([^\]]*)\)\][ \t]*\n', fix_derive, text, flags=re.M)
    if text2 != text:
        n += 1
    if n:
        log.append(('R4', file, base_line, f'{n} attribute/doc lines'))
    return text2


def r5_self_path(text, log, file, base_line, strip_modules=()):
    rx = re.compile(r'(?<![A-Za-z0-9_:])(?:crate::|self::|super::)?(?:[a-z_][a-z0-9_]*::)+(?=[A-Z])')

    def keep_std(m):
        return m.group(0)
    cnt = 0

    def sub(m):
        nonlocal cnt
        s = m.group(0)
        # keep primitive-type paths such as u16::MAX, f64::NAN, usize::MAX
        if re.fullmatch(r'(?:[ui](?:8|16|32|64|128|size)|f32|f64|char|str)::', s):
            return s
        cnt += 1
        return ''
    text = rx.sub(sub, text)
    for mod in strip_modules:
        text, k = re.subn(r'(?<![A-Za-z0-9_:])(?:crate::)?' + re.escape(mod) + r'::(?=[a-z_])', '', text)
        cnt += k
    if cnt:
        log.append(('R5', file, base_line, f'{cnt} paths shortened'))
    return text


def r6_drain_prefix(text, log, file, base_line):
    rx = re.compile(r'([A-Za-z_][A-Za-z0-9_\.]*)\.drain\(\.\.([A-Za-z_0-9]+)\);')
    for m in list(rx.finditer(text))[::-1]:
        log.append(('R6', file, base_line + text.count('\n', 0, m.start()), m.group(0)))
        text = text[:m.start()] + f'vx_vec_drain_to(&mut {m.group(1)}, {m.group(2)});' + text[m.end():]
    return text


def r9_str_contains(text, log, file, base_line):
    """`A.as_str().contains(B)` -> `vx_str_contains(A.as_str(), B)`: trusted wrapper performing exactly
    that call (`str::contains` is generic over the unstable `Pattern` trait, which an
    assume_specification cannot name)."""
    rx = re.compile(r'([A-Za-z_][A-Za-z0-9_]*(?:\.[A-Za-z_][A-Za-z0-9_]*)*)\.as_str\(\)\.contains\(')
    while True:
        m = rx.search(text)
        if not m:
            return text
        msk = mask(text)
        close = match_close(msk, m.end() - 1)
        arg = text[m.end():close]
        log.append(('R9', file, base_line + text.count('\n', 0, m.start()), m.group(0)))
        text = text[:m.start()] + f'vx_str_contains({m.group(1)}.as_str(), {arg})' + text[close + 1:]


def r10_hash_call(text, log, file, base_line):
    """`X.hash(&mut H);` -> `vx_hash(&X, &mut H);`: trusted wrapper performing exactly that call
    (`Hash::hash` is generic over the hasher; the wrapper fixes it to DefaultHasher and gives it the
    contract "appends enc(X) to the hasher's input")."""
    rx = re.compile(r'(?<![A-Za-z0-9_\.])([a-z_][a-z0-9_]*)\.hash\(&mut ([a-z_][a-z0-9_]*)\);')
    for m in list(rx.finditer(text))[::-1]:
        log.append(('R10', file, base_line + text.count('\n', 0, m.start()), m.group(0)))
        text = text[:m.start()] + f'vx_hash(&{m.group(1)}, &mut {m.group(2)});' + text[m.end():]
    return text


def r13_display_join(text, log, file, base_line):
    """`E.iter().map(|v| format!("{v}")).collect()` (optionally `::<Vec<String>>`) -> `vx_display_all(&E)` and
    `<that or its let-bound name>.join(SEP)` -> `vx_join(&.., SEP)`: Display formatting and `join` cannot be
    verified (closures, iterator adapters, fmt machinery); they are abstracted as *uninterpreted but
    deterministic* functions of their argument (declared in the unit's prelude, listed as trusted).  What is
    then proved is everything around the string: equal inputs give equal strings, nothing about the text."""
    rx = re.compile(r'((?:self|[a-z_]\w*)(?:\s*\.\s*[a-z_]\w*)*?)\s*\.\s*iter\(\)\s*\.\s*map\(\|(\w+)\|\s*format!\("\{\2\}"\)\)\s*\.\s*collect(?:::<Vec<String>>)?\(\)')
    names = []
    while True:
        m = rx.search(text)
        if not m:
            break
        recv = re.sub(r'\s+', '', m.group(1))
        log.append(('R13', file, base_line + text.count('\n', 0, m.start()), re.sub(r'\s+', ' ', m.group(0))))
        lm = re.search(r'let\s+(\w+)\s*(?::\s*Vec<String>)?\s*=\s*$', text[:m.start()])
        if lm:
            names.append(lm.group(1))
        text = text[:m.start()] + f'vx_display_all(&{recv})' + text[m.end():]
    if names or 'vx_display_all(' in text:
        alt = '|'.join([r'vx_display_all\(&[\w\.]+\)'] + [re.escape(n) for n in names])
        jx = re.compile(r'(?<![\w\.])(' + alt + r')\s*\.\s*join\(("[^"]*")\)')
        while True:
            m = jx.search(text)
            if not m:
                break
            log.append(('R13', file, base_line + text.count('\n', 0, m.start()), re.sub(r'\s+', ' ', m.group(0))))
            text = text[:m.start()] + f'vx_join(&{m.group(1)}, {m.group(2)})' + text[m.end():]
    return text


def r11_const_static(text, log, file, base_line):
    """R11/R12: `const N: &[u8] = b"..";` becomes an `exec const` whose body is the repository's
    literal (external_body: Verus cannot coerce a byte-string array to a slice) and whose `ensures`
    lists the literal's bytes, decoded mechanically from that same literal."""
    rx = re.compile(r'(pub(?:\([a-z]+\))?\s+)?const\s+([A-Z_0-9]+)\s*:\s*&\s*(?:\'static\s+)?\[u8\]\s*=\s*(b"(?:[^"\\]|\\.)*")\s*;')
    m = rx.search(text)
    if not m:
        return text
    lit = m.group(3)
    import ast
    raw = ast.literal_eval(lit)  # rust byte-string escapes used here (\r \n \t \\ \" \xNN) coincide with python's
    seq = ', '.join(f'{b}u8' for b in raw)
    rep = (f"#[verifier::external_body]\n{m.group(1) or ''}exec const {m.group(2)}: &'static [u8]\n"
           f"    ensures {m.group(2)}@ =~= seq![{seq}],\n{{ {lit} }}")
    log.append(('R12', file, base_line, f'{m.group(2)}: {len(raw)} bytes decoded from the literal'))
    return text[:m.start()] + rep + text[m.end():]


def r8_ref_pattern(text, log, file, base_line):
    """`if let P(&x) = e {` -> `if let P(vx_r_x) = e { let x = *vx_r_x;` (Verus has no ref patterns).

    Rust binds `&x` against a `&T` (T: Copy) by copying `*ref` into x, which is what the
    inserted `let` does; only `if let` / `while let` heads are handled."""
    pos = 0
    while True:
        msk = mask(text)
        m = re.compile(r'(?<![A-Za-z0-9_])(?:if|while)\s+let\s').search(msk, pos)
        if not m:
            return text
        # find '=' separating pattern and scrutinee
        j = m.end()
        depth = 0
        eq = -1
        while j < len(msk):
            ch = msk[j]
            if ch in '([{':
                depth += 1
            elif ch in ')]}':
                depth -= 1
            elif ch == '=' and depth == 0 and msk[j - 2:j] != '..' and msk[j + 1] not in '=>' and msk[j - 1] not in '=!<>':
                eq = j
                break
            j += 1
        if eq < 0:
            pos = m.end()
            continue
        pat = text[m.end():eq]
        names = re.findall(r'(?<![A-Za-z0-9_&])&(?:mut\s+)?([a-z_][a-z0-9_]*)\b', mask(pat))
        if not names:
            pos = eq
            continue
        bo = find_body_open(msk, eq + 1)
        if bo < 0:
            raise Unsupported(f'ref pattern without block at {file}')
        newpat = re.sub(r'(?<![A-Za-z0-9_&])&([a-z_][a-z0-9_]*)\b', r'vx_r_\1', pat)
        lets = ''.join(f' let {n} = *vx_r_{n};' for n in names)
        log.append(('R8', file, base_line + text.count('\n', 0, m.start()), f'ref patterns {names}'))
        text = text[:m.end()] + newpat + text[eq:bo + 1] + lets + text[bo + 1:]
        pos = m.end() + len(newpat)


def name_return(sig, ret, log, file, line):
    """R0: `-> T` becomes `-> (ret: T)` so the contract can mention the result."""
    msk = mask(sig)
    k = msk.find('->')
    # find the '->' that is at depth 0 (not inside fn-pointer types in params)
    depth = 0
    pos = -1
    for i, ch in enumerate(msk):
        if ch in '([':
            depth += 1
        elif ch in ')]':
            depth -= 1
        elif ch == '-' and msk[i:i + 2] == '->' and depth == 0:
            pos = i
            break
    if pos < 0:
        return sig
    rest = sig[pos + 2:]
    mw = re.search(r'\bwhere\b', mask(rest))
    ty_end = mw.start() if mw else len(rest)
    ty = rest[:ty_end].strip()
    log.append(('R0', file, line, f'-> ({ret}: {ty})'))
    return sig[:pos] + f'-> ({ret}: {ty}) ' + rest[ty_end:]


class Weaver:
    def __init__(self, repo, contracts_dir):
        self.repo = repo
        self.cdir = contracts_dir
        self._cache = {}

    def src(self, file):
        if file not in self._cache:
            p = os.path.join(self.repo, file)
            if not os.path.exists(p):
                raise LostAnchor(f'file {file} missing')
            s = open(p).read()
            self._cache[file] = (s, mask(s))
        return self._cache[file]

    def locate(self, file, path):
        """path like 'impl Foo / fn bar' or 'fn baz' or 'struct S'."""
        src, msk = self.src(file)
        lo, hi = 0, len(src)
        header = None
        span = None
        parts = [p.strip() for p in path.split('/')]
        for i, part in enumerate(parts):
            m = re.match(r'(fn|struct|enum|trait|const|impl|type)\s+(.*?)(?:\s*#(\d+))?$', part)
            if not m:
                raise ValueError(path)
            kind, name, nth = m.group(1), m.group(2), int(m.group(3) or 0)
            span = find_item(src, msk, kind, name, lo, hi, nth)
            if i < len(parts) - 1:
                header = src[span.start:span.body_open].strip()
                lo, hi = span.body_open + 1, span.end - 1
        return src, msk, span, header, parts

    def build(self, spec_path):
        spec = tomllib.load(open(spec_path, 'rb'))
        u = Unit()
        u.spec = spec
        u.name = spec['unit']
        u.add('// GENERATED on every run from /repo by vx.weave — do not edit\n#![allow(unused_imports, dead_code, unused_variables, unused_mut, unused_assignments, non_snake_case, unreachable_patterns)]\nuse vstd::prelude::*;\n' + spec.get('uses', '') + '\nverus! {\n')
        for pf in spec.get('prelude', []):
            u.add(f'// ---- prelude {pf}\n' + open(os.path.join(self.cdir, 'prelude', pf)).read(), tag=f'prelude:{pf}')
        if spec.get('prelude_text'):
            u.add(spec['prelude_text'], tag='prelude:inline')
        strip_modules = spec.get('strip_modules', [])
        self._fn_names = [re.search(r'fn\s+(\w+)', it['path']).group(1) for it in spec.get('item', []) if re.search(r'(^|/)\s*fn\s+\w+', it['path'])]
        open_impl = None
        impl_extra = {e['impl']: e['text'] for e in spec.get('impl_extra', [])}
        for it in spec.get('item', []):
            file, path = it['file'], it['path']
            src, msk, span, header, parts = self.locate(file, path)
            base_line = lineno(src, span.start)
            hoist = it.get('hoist', False)
            in_impl = header if (header and not hoist) else None
            if in_impl != open_impl:
                if open_impl:
                    u.add('}\n')
                if in_impl:
                    hdr = '\n'.join(l for l in in_impl.split('\n') if not l.strip().startswith(('///', '#[', '//'))).strip()
                    hdr = r5_self_path(hdr, u.rewrites, file, base_line)
                    if it.get('impl_header'):
                        u.rewrites.append(('R7', file, base_line, f'trait-impl method checked as inherent method: {hdr} -> {it["impl_header"]}'))
                        hdr = it['impl_header']
                    u.add(hdr + ' {\n')
                    key = re.sub(r'^impl(\s*<[^>]*>)?\s+', '', re.sub(r'\s+', ' ', hdr)).strip()
                    for k, v in impl_extra.items():
                        if k == key or key.startswith(k + ' where') or key.startswith(k + ' {'):
                            u.add(v, tag=f'{u.name}.{key}.spec')
                open_impl = in_impl
            text = self.weave_item(u, it, src, msk, span, file, base_line, strip_modules)
            if it.get('impl_header') and header and 'Self::' in text:
                # R15: associated types of the trait impl being checked as an inherent impl are resolved from
                # the `type X = T;` items of that very impl block
                hp = src.find(header)
                bo_ = src.find('{', hp + len(header) - 1) if hp >= 0 else -1
                if bo_ >= 0:
                    blk = src[bo_:match_close(msk, bo_)]
                    for am in re.finditer(r'\btype\s+(\w+)\s*=\s*([^;]+);', blk):
                        t2 = re.sub(r'\bSelf::' + am.group(1) + r'\b', am.group(2).strip(), text)
                        if t2 != text:
                            u.rewrites.append(('R15', file, base_line, f'Self::{am.group(1)} -> {am.group(2).strip()} (associated type of the impl)'))
                            text = t2
            if hoist:
                text = re.sub(r'\bSelf::', '', text)
                u.rewrites.append(('R7', file, base_line, f'hoisted {parts[-1]} out of {header}'))
            item_id = it.get('id') or parts[-1].split()[-1]
            if it.get('attr'):
                text = it['attr'].strip() + '\n' + text.lstrip('\n')
            u.add(f'// ---- {file}:{base_line} {path}\n' + text, tag=f'{u.name}.{item_id}')
            if parts[-1].startswith('fn'):
                u.functions.append({'file': file, 'item': path, 'line': base_line, 'backend': 'verus',
                                    'has_contract': bool(it.get('spec') or it.get('loop'))})
        if open_impl:
            u.add('}\n')
        for lf in spec.get('lemma_files', []):
            u.add(f'// ---- lemmas {lf}\n' + open(os.path.join(self.cdir, 'prelude', lf)).read(), tag=f'{u.name}.lemmas:{lf}')
        # `lemmas = ...` written after an [[item]] table lands inside that table in TOML: accept both places
        for it in spec.get('item', []):
            for sub in it.get('hint', []) + it.get('loop', []):
                if 'lemmas' in sub or 'lemma_files' in sub:
                    raise ValueError(f'{spec_path}: `lemmas` written after an [[item.hint]]/[[item.loop]] table is swallowed by it: move it to the top of the file')
        for lem in [spec.get('lemmas')] + [it.get('lemmas') for it in spec.get('item', [])]:
            if lem:
                u.add('// ---- lemmas\n' + lem, tag=f'{u.name}.lemmas')
        u.add('} // verus!\nfn main() {}\n')
        u.finish()
        return u

    def weave_item(self, u, it, src, msk, span, file, base_line, strip_modules):
        text = src[span.start:span.end]
        tmask = msk[span.start:span.end]
        bo = (span.body_open - span.start) if span.body_open is not None else None
        is_fn = re.match(r'(?:\s*(?:#\[[^\n]*\]|///[^\n]*)\n)*\s*(?:pub(?:\s*\([^)]*\))?\s+)?(?:const\s+)?fn\b', text) is not None
        inserts = []  # (pos, text)
        item_id = it.get('id') or it['path'].split('/')[-1].split()[-1]
        if is_fn:
            sig_end = bo if bo is not None else tmask.rfind(';')
            sig = text[:sig_end]
            if it.get('ret'):
                sig2 = name_return(sig, it['ret'], u.rewrites, file, base_line)
            else:
                sig2 = sig
            specs = it.get('spec', '').strip()
            if specs:
                sig2 = sig2.rstrip() + '\n' + indent(specs, 4) + '\n'
                u.clauses.append(f'{u.name}.{item_id}.spec')
            # loops
            body_lo = bo + 1 if bo is not None else None
            loops = find_loops(tmask, body_lo, len(tmask)) if bo is not None else []
            for lp in it.get('loop', []):
                if 'match' in lp:
                    # loop addressed by the text of its header (robust against loops added elsewhere in the body)
                    cands = [k for k, l in enumerate(loops) if lp['match'] in text[l[0]:l[1]]]
                    if len(cands) != 1:
                        raise LostAnchor(f'{file}: loop header {lp["match"]!r} of {item_id} matches {len(cands)} loops')
                    n = cands[0]
                else:
                    n = lp['n']
                if n >= len(loops):
                    raise LostAnchor(f'{file}: loop #{n} of {item_id} not found (have {len(loops)})')
                inserts.append((loops[n][1], '\n' + indent(lp['invariant'].strip(), 8) + '\n    /*vx-body*/'))
                if lp.get('iter'):
                    # spec-only: name the ghost iterator of a `for` loop (`for x in it: expr`)
                    mm = re.search(r'\sin\s', tmask[loops[n][0]:loops[n][1]])
                    if not mm:
                        raise LostAnchor(f'{file}: loop #{n} of {item_id} is not a for-in loop')
                    inserts.append((loops[n][0] + mm.end(), lp['iter'] + ': '))
                u.clauses.append(f'{u.name}.{item_id}.loop{n}')
            if it.get('loops_expected') is not None and len(loops) != it['loops_expected']:
                raise LostAnchor(f'{file}: {item_id} has {len(loops)} loops, contracts expect {it["loops_expected"]}')
            for h in it.get('hint', []):
                anchor = h.get('after') or h.get('before')
                occ = h.get('occurrence', 0)
                pos = -1
                start = body_lo or 0
                for _ in range(occ + 1):
                    pos = text.find(anchor, start)
                    if pos < 0:
                        raise LostAnchor(f'{file}: hint anchor {anchor!r} not found in {item_id}')
                    start = pos + 1
                if 'after' in h:
                    e = text.find('\n', pos + len(anchor))
                    inserts.append((e + 1, indent(h['text'].strip(), 8) + '\n'))
                else:
                    s = text.rfind('\n', 0, pos)
                    inserts.append((s + 1, indent(h['text'].strip(), 8) + '\n'))
            body = text[sig_end:]
            # apply inserts (positions are relative to text) from the back
            for pos, ins in sorted(inserts, key=lambda x: -x[0]):
                rel = pos - sig_end
                body = body[:rel] + ins + body[rel:]
            text = sig2 + body
        # mechanical rewrites
        text = r4_attrs(text, u.rewrites, file, base_line, it.get('derive_keep'))
        text = r1_drop_trace(text, u.rewrites, file, base_line)
        text = r2_be_bytes(text, u.rewrites, file, base_line)
        text = r3_for_ref_tuple(text, u.rewrites, file, base_line)
        text = r6_drain_prefix(text, u.rewrites, file, base_line)
        text = r8_ref_pattern(text, u.rewrites, file, base_line)
        text = r9_str_contains(text, u.rewrites, file, base_line)
        text = r10_hash_call(text, u.rewrites, file, base_line)
        text = r13_display_join(text, u.rewrites, file, base_line)
        text = r11_const_static(text, u.rewrites, file, base_line)
        text = r5_self_path(text, u.rewrites, file, base_line, strip_modules)
        for fnname in getattr(self, '_fn_names', []):
            text2 = re.sub(r'(?<![A-Za-z0-9_:])(?:crate::|self::|super::)(?:[a-z_][a-z0-9_]*::)*' + re.escape(fnname) + r'(?=\s*\()', fnname, text)
            if text2 != text:
                u.rewrites.append(('R5', file, base_line, f'path to extracted fn {fnname} shortened'))
                text = text2
        return text


def indent(s, n):
    pad = ' ' * n
    return '\n'.join(pad + l if l.strip() else l for l in s.split('\n'))
