"""Small Rust-syntax-aware scanner: comments, strings, chars, lifetimes, raw strings.

Gives a 'mask' of the source (same length) in which comment and literal
contents are blanked, so brace matching / keyword search can be done with
plain string operations on the mask while text is cut from the original.
"""
import re


class LostAnchor(Exception):
    pass


class Unsupported(Exception):
    pass


def mask(src: str) -> str:
    out = list(src)
    i, n = 0, len(src)

    def blank(a, b):
        for k in range(a, b):
            if out[k] != '\n':
                out[k] = ' '

    while i < n:
        c = src[i]
        if src.startswith('//', i):
            j = src.find('\n', i)
            j = n if j < 0 else j
            blank(i, j)
            i = j
        elif src.startswith('/*', i):
            depth, j = 1, i + 2
            while j < n and depth:
                if src.startswith('/*', j):
                    depth += 1; j += 2
                elif src.startswith('*/', j):
                    depth -= 1; j += 2
                else:
                    j += 1
            blank(i, j)
            i = j
        elif c == '"' or (c in 'br' and re.match(r'b?r#*"|b"', src[i:i + 12])):
            m = re.match(r'(b?)(r?)(#*)"', src[i:])
            if m and m.group(2):  # raw
                hashes = m.group(3)
                end = src.find('"' + hashes, i + m.end())
                j = n if end < 0 else end + 1 + len(hashes)
                blank(i + m.end(), j - 1 - len(hashes))
                i = j
            else:
                start = i + (m.end() if m else 1)
                j = start
                while j < n and src[j] != '"':
                    j += 2 if src[j] == '\\' else 1
                blank(start, j)
                i = j + 1
        elif c == "'":
            # char literal or lifetime
            m = re.match(r"'(\\.[^']*|[^'\\])'", src[i:])
            if m:
                blank(i + 1, i + m.end() - 1)
                i += m.end()
            else:
                i += 1
        else:
            i += 1
    return ''.join(out)


OPEN = {'{': '}', '(': ')', '[': ']'}


def match_close(msk: str, i: int) -> int:
    """msk[i] is an opener; return index of its matching closer."""
    stack = [OPEN[msk[i]]]
    j = i + 1
    while j < len(msk):
        ch = msk[j]
        if ch in OPEN:
            stack.append(OPEN[ch])
        elif ch in ')]}':
            if not stack or stack[-1] != ch:
                raise Unsupported('unbalanced delimiters')
            stack.pop()
            if not stack:
                return j
        j += 1
    raise Unsupported('unterminated delimiter')


def find_body_open(msk: str, start: int, end: int = None) -> int:
    """First '{' at paren/bracket depth 0 in msk[start:end]."""
    end = len(msk) if end is None else end
    j = start
    while j < end:
        ch = msk[j]
        if ch in '([':
            j = match_close(msk, j) + 1
            continue
        if ch == '{':
            return j
        if ch == ';':
            return -1
        j += 1
    return -1


ITEM_KW = r'(?:pub(?:\s*\([^)]*\))?\s+)?(?:const\s+|unsafe\s+|async\s+)*'


def _item_regex(kind: str, name: str) -> str:
    if kind == 'fn':
        return r'(?<![A-Za-z0-9_])' + ITEM_KW + r'fn\s+' + re.escape(name) + r'(?![A-Za-z0-9_])'
    if kind in ('struct', 'enum', 'trait'):
        return r'(?<![A-Za-z0-9_])' + ITEM_KW + kind + r'\s+' + re.escape(name) + r'(?![A-Za-z0-9_])'
    if kind == 'const':
        return r'(?<![A-Za-z0-9_])(?:pub(?:\s*\([^)]*\))?\s+)?const\s+' + re.escape(name) + r'\s*:'
    if kind == 'type':
        return r'(?<![A-Za-z0-9_])(?:pub(?:\s*\([^)]*\))?\s+)?type\s+' + re.escape(name) + r'(?![A-Za-z0-9_])'
    if kind == 'impl':
        # name is the text after "impl", whitespace-normalised, e.g.
        # "TlsClientHelloReader" or "MatchQuality for TcpMatchQuality"
        parts = [re.escape(p) for p in name.split()]
        return r'(?<![A-Za-z0-9_])impl(?:\s*<[^{]*?>)?\s+(?:[A-Za-z0-9_:]*::)?' + r'\s+(?:[A-Za-z0-9_:]*::)?'.join(parts) + r'(?:\s*<[^{]*?>)?\s*(?:where[^{]*)?\{'
    raise ValueError(kind)


class Span:
    def __init__(self, start, end, body_open=None):
        self.start, self.end, self.body_open = start, end, body_open


def find_item(src: str, msk: str, kind: str, name: str, lo: int = 0, hi: int = None, nth: int = 0) -> Span:
    """Locate an item inside src[lo:hi] at brace depth 0 relative to lo."""
    hi = len(src) if hi is None else hi
    rx = re.compile(_item_regex(kind, name))
    pos = lo
    seen = 0
    while True:
        m = rx.search(msk, pos, hi)
        if not m:
            raise LostAnchor(f'{kind} {name} not found')
        # depth check relative to lo
        depth = 0
        for ch in msk[lo:m.start()]:
            if ch == '{':
                depth += 1
            elif ch == '}':
                depth -= 1
        if depth != 0:
            pos = m.end()
            continue
        if seen < nth:
            seen += 1
            pos = m.end()
            continue
        break
    start = m.start()
    # include attribute / doc-comment lines directly above the item
    ls = src.rfind('\n', 0, start) + 1
    if src[ls:start].strip() == '':
        while ls > lo:
            pl = src.rfind('\n', 0, ls - 1) + 1
            prev = src[pl:ls].strip()
            if prev.startswith('#[') or prev.startswith('///'):
                ls = pl
            else:
                break
        start = ls
    if kind == 'impl':
        bo = m.end() - 1
        return Span(start, match_close(msk, bo) + 1, bo)
    if kind in ('const', 'type'):
        j = msk.find(';', m.end())
        # skip nested braces/brackets
        k = m.end()
        while k < hi:
            ch = msk[k]
            if ch in OPEN:
                k = match_close(msk, k) + 1
                continue
            if ch == ';':
                break
            k += 1
        return Span(start, k + 1, None)
    bo = find_body_open(msk, m.end(), hi)
    if bo < 0:
        k = msk.find(';', m.end())
        return Span(start, k + 1, None)
    return Span(start, match_close(msk, bo) + 1, bo)


LOOP_RX = re.compile(r'(?<![A-Za-z0-9_\'])(while|for|loop)(?![A-Za-z0-9_])')


def find_loops(msk: str, lo: int, hi: int):
    """Return list of (kw_start, body_open_index) for loops in msk[lo:hi], in text order."""
    res = []
    for m in LOOP_RX.finditer(msk, lo, hi):
        kw = m.group(1)
        if kw == 'for':
            # skip `for<'a>` and `impl X for Y`
            after = msk[m.end():m.end() + 2].lstrip()
            if after.startswith('<'):
                continue
            # a loop `for pat in expr {` must contain ' in ' before the body
        bo = find_body_open(msk, m.end(), hi)
        if bo < 0:
            continue
        if kw == 'for' and not re.search(r'\sin\s', msk[m.end():bo]):
            continue
        res.append((m.start(), bo))
    return res
