"""Run Verus on a generated unit file and classify the outcome."""
import json
import os
import re
import subprocess
import time

REFUTED_PAT = re.compile(
    r'postcondition not satisfied|precondition not satisfied|precondition not met|assertion failed|invariant not satisfied|'
    r'possible arithmetic (?:underflow/overflow|overflow|underflow)|possible division by zero|'
    r'decreases not satisfied|possible bit shift underflow/overflow|unable to prove|'
    r'recommendation not met|cannot show .* is nonnegative|could not prove termination|'
    r'failed to satisfy|not satisfied', re.I)
RLIMIT_PAT = re.compile(r'resource limit|rlimit|timed? ?out', re.I)


class VerusResult:
    def __init__(self):
        self.ok = False
        self.verified = 0
        self.errors = 0
        self.failures = []      # dicts: message, line, label_lines, rendered, function
        self.tool_errors = []   # rendered strings (compile errors, unsupported, rlimit)
        self.functions = []     # per function: name, mode, time_us, rlimit, success
        self.smt_ms = 0
        self.total_ms = 0
        self.wall_s = 0.0
        self.cmd = ''
        self.raw_err = ''


def run_verus(path, rlimit=30, threads=8, extra=()):
    cmd = ['verus', path, '--output-json', '--time', '--error-format=json',
           '--multiple-errors', '50', '--rlimit', str(rlimit), '--num-threads', str(threads)] + list(extra)
    t0 = time.time()
    env = dict(os.environ)
    p = subprocess.run(cmd, capture_output=True, text=True, cwd=os.path.dirname(path), env=env)
    r = VerusResult()
    r.cmd = ' '.join(cmd)
    r.wall_s = time.time() - t0
    r.raw_err = p.stderr
    summary = None
    try:
        summary = json.loads(p.stdout)
    except Exception:
        # stdout may hold extra text before the json
        m = re.search(r'\{\s*"func-details".*', p.stdout, re.S)
        if m:
            try:
                summary = json.loads(m.group(0))
            except Exception:
                summary = None
    for line in p.stderr.splitlines():
        line = line.strip()
        if not line.startswith('{'):
            continue
        try:
            d = json.loads(line)
        except Exception:
            continue
        if d.get('level') not in ('error',):
            continue
        msg = d.get('message', '')
        if msg.startswith('aborting due to'):
            continue
        spans = d.get('spans', [])
        prim = [s for s in spans if s.get('is_primary')]
        lines = [s['line_start'] for s in spans]
        entry = {'message': msg, 'line': (prim[0]['line_start'] if prim else (lines[0] if lines else 0)),
                 'lines': lines, 'labels': [(s['line_start'], s.get('label')) for s in spans],
                 'rendered': d.get('rendered', '')}
        if RLIMIT_PAT.search(msg):
            r.tool_errors.append(entry)
        elif REFUTED_PAT.search(msg):
            r.failures.append(entry)
        else:
            r.tool_errors.append(entry)
    if summary:
        vr = summary.get('verification-results', {})
        r.verified = vr.get('verified', 0)
        r.errors = vr.get('errors', 0)
        tm = summary.get('times-ms', {})
        r.total_ms = tm.get('total', 0)
        smt = tm.get('smt', {})
        r.smt_ms = smt.get('smt-run', 0)
        for mod in smt.get('smt-run-module-times', []):
            for f in mod.get('function-breakdown', []):
                r.functions.append({'name': f.get('function'), 'mode': f.get('mode:') or f.get('mode'),
                                    'time_us': f.get('time-micros'), 'rlimit': f.get('rlimit'),
                                    'success': f.get('success')})
        r.ok = bool(vr.get('success')) and not r.failures and not r.tool_errors
        if vr.get('encountered-vir-error'):
            r.ok = False
    else:
        r.tool_errors.append({'message': 'verus produced no JSON summary', 'line': 0, 'lines': [], 'labels': [],
                              'rendered': p.stderr[-4000:] + p.stdout[-2000:]})
    return r
