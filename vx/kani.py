"""Kani route: annotate a scratch copy of /repo in place and run cargo kani.

The function bodies compiled are the repository's, byte for byte: the only edits
to the scratch copy are (a) `#[cfg_attr(kani, kani::requires/ensures/...)]`
attributes inserted above named functions, (b) `#[cfg(kani)] mod vx_* { .. }`
harness modules appended to source files, (c) `[patch.crates-io]` for the
tracing no-op (and, per unit, the ttl_cache stand-in), (d) offline config.
"""
import json
import os
import re
import shutil
import subprocess
import threading
import time
import tomllib

from .rustsrc import mask, find_item, LostAnchor

VERIF = os.path.dirname(os.path.dirname(os.path.abspath(__file__)))
SCRATCH_ROOT = os.environ.get('VX_SCRATCH', '/var/tmp/vx')
TARGET_DIR = os.environ.get('VX_KANI_TARGET', os.path.join(VERIF, '.cache', 'kani-target'))


MEM_CAP_KB = int(os.environ.get('VX_KANI_MEM_GB', '20')) * 1048576


def _descends_from(pid, root):
    seen = 0
    while pid > 1 and seen < 64:
        if pid == root:
            return True
        try:
            pid = int(open(f'/proc/{pid}/stat').read().rsplit(')', 1)[1].split()[1])
        except Exception:
            return False
        seen += 1
    return False


def _memory_watchdog(stop, killed, cap_kb=None):
    """CBMC can grow to tens of GB on a harness it cannot handle (possibly only under a changed /repo):
    kill any cbmc process started by this run whose resident set passes the cap, so that the harness
    ends as a tool error (exit 2) instead of taking the machine down."""
    me = os.getpid()
    while not stop.wait(5):
        for d in os.listdir('/proc'):
            if not d.isdigit():
                continue
            try:
                if open(f'/proc/{d}/comm').read().strip() != 'cbmc':
                    continue
                rss = 0
                for line in open(f'/proc/{d}/status'):
                    if line.startswith('VmRSS:'):
                        rss = int(line.split()[1])
                if rss > (cap_kb or MEM_CAP_KB) and _descends_from(int(d), me):
                    os.kill(int(d), 9)
                    killed.append(int(d))
            except Exception:
                continue


class Harness:
    def __init__(self, unit, d):
        self.unit = unit
        self.name = d['name']
        self.obligation = d['obligation']
        self.kind = d.get('kind', 'Kinf')          # Kinf | Kb
        self.bound = d.get('bound', '')
        self.expect = d.get('expect', 'pass')      # pass | fail (canary) | known
        self.known = d.get('known')                # known finding id
        self.what = d.get('what', '')
        self.functions = d.get('functions', [])
        self.assumes = d.get('assumes', [])
        self.tier = d.get('tier', 'quick')
        self.also = d.get('also', [])          # other properties this harness also serves
        self.result = None                          # pass | fail | timeout | error | missing
        self.time_s = None
        self.checks = None
        self.failed_checks = []
        self.full_name = None


class KaniUnit:
    def __init__(self, path):
        d = tomllib.load(open(path, 'rb'))
        self.path = path
        self.name = d['unit']
        self.crate = d['crate']
        self.appends = d.get('append', [])
        self.contracts = d.get('contract', [])
        self.patch_ttl_cache = d.get('patch_ttl_cache', False)
        self.mem_gb = d.get('mem_gb', 0)   # per-unit watchdog cap (GiB) when a harness is known to need more than the default
        self.flags = d.get('flags', [])
        self.unwind = d.get('default_unwind')
        self.timeout = d.get('harness_timeout', '300s')
        self.harnesses = [Harness(self, h) for h in d.get('harness', [])]
        self.functions = d.get('functions', [])
        self.jobs = d.get('jobs', 8)


class Scratch:
    def __init__(self, repo, tag):
        self.repo = repo
        self.root = os.path.join(SCRATCH_ROOT, f'run-{tag}-{os.getpid()}')
        self.dir = os.path.join(self.root, 'repo')
        self.log = []

    def create(self, patch_ttl_cache=False):
        shutil.rmtree(self.root, ignore_errors=True)
        os.makedirs(self.root, exist_ok=True)
        subprocess.run(['rsync', '-a', '--exclude', 'target', '--exclude', '.git', '--exclude', 'pcap',
                        '--exclude', '*.png', '--exclude', '*.svg', '--exclude', 'benches', '--exclude', 'examples',
                        self.repo.rstrip('/') + '/', self.dir + '/'], check=True)
        # cargo hashes path packages relative to the workspace root, so every scratch copy maps to the
        # same cached units and freshness is decided by mtimes alone: give all workspace sources a
        # fresh mtime so that the workspace crates are always rebuilt from THIS copy (a stale artifact
        # from an earlier, different copy must never be reused); registry dependencies stay cached
        now = time.time()
        for root, _dirs, files in os.walk(self.dir):
            for fn in files:
                if fn.endswith(('.rs', '.toml', '.fp')):
                    os.utime(os.path.join(root, fn), (now, now))
        os.makedirs(os.path.join(self.dir, '.cargo'), exist_ok=True)
        with open(os.path.join(self.dir, '.cargo', 'config.toml'), 'w') as f:
            f.write('[net]\noffline = true\n')
        ct = os.path.join(self.dir, 'Cargo.toml')
        s = open(ct).read()
        s += '\n[patch.crates-io]\ntracing = { path = "%s" }\n' % os.path.join(VERIF, 'stubs', 'tracing')
        if patch_ttl_cache:
            s += 'ttl_cache = { path = "%s" }\n' % os.path.join(VERIF, 'stubs', 'ttl_cache')
        open(ct, 'w').write(s)
        # benches/examples are excluded from the copy: drop their manifest entries
        for crate in os.listdir(self.dir):
            m = os.path.join(self.dir, crate, 'Cargo.toml')
            if os.path.isfile(m):
                t = open(m).read()
                t2 = re.sub(r'\n\[\[(bench|example)\]\][^\[]*', '\n', t)
                if t2 != t:
                    open(m, 'w').write(t2)

    def remove(self):
        shutil.rmtree(self.root, ignore_errors=True)

    def apply_unit(self, unit):
        for c in unit.contracts:
            p = os.path.join(self.dir, c['file'])
            if not os.path.exists(p):
                raise LostAnchor(f"{c['file']} missing")
            src = open(p).read()
            msk = mask(src)
            lo, hi = 0, len(src)
            parts = [x.strip() for x in c['path'].split('/')]
            span = None
            for i, part in enumerate(parts):
                m = re.match(r'(fn|impl|trait)\s+(.*)$', part)
                span = find_item(src, msk, m.group(1), m.group(2), lo, hi)
                if i < len(parts) - 1:
                    lo, hi = span.body_open + 1, span.end - 1
            # insert attributes right before the `fn` line (after existing attrs/docs)
            fnpos = re.compile(r'(?:pub(?:\s*\([^)]*\))?\s+)?(?:const\s+)?fn\s').search(msk, span.start)
            ls = src.rfind('\n', 0, fnpos.start()) + 1
            attrs = ''.join(f'#[cfg_attr(kani, {a.strip()})]\n' for a in c['attrs'])
            src = src[:ls] + attrs + src[ls:]
            open(p, 'w').write(src)
            self.log.append(('contract', c['file'], c['path'], len(c['attrs'])))
        for a in unit.appends:
            p = os.path.join(self.dir, a['file'])
            if not os.path.exists(p):
                raise LostAnchor(f"{a['file']} missing")
            body = open(os.path.join(VERIF, 'contracts', 'kani', a['module'])).read()
            modname = a.get('modname', 'vx_' + re.sub(r'\W', '_', os.path.splitext(a['module'])[0]))
            with open(p, 'a') as f:
                vis = 'pub(crate) ' if a.get('crate_visible') else ''
                f.write(f'\n#[cfg(kani)]\n#[allow(unused, clippy::all)]\n{vis}mod {modname} {{\n{body}\n}}\n')
            if a.get('crate_attrs'):
                # crate-level feature gates for loop contracts go to lib.rs top
                lib = os.path.join(self.dir, unit.crate, 'src', 'lib.rs')
                t = open(lib).read()
                open(lib, 'w').write(a['crate_attrs'] + '\n' + t)
            self.log.append(('append', a['file'], a['module']))


def run_unit(scratch, unit, harnesses, log_dir, extra_flags=(), timeout_s=3600):
    """Run the given harnesses of one unit in one cargo kani invocation."""
    os.makedirs(log_dir, exist_ok=True)
    os.makedirs(TARGET_DIR, exist_ok=True)
    out_json = os.path.join(log_dir, f'{unit.name}.kani.json')
    if os.path.exists(out_json):
        os.remove(out_json)
    cmd = ['cargo', 'kani', '-p', unit.crate, '--target-dir', TARGET_DIR,
           '-Z', 'function-contracts', '-Z', 'stubbing', '-Z', 'unstable-options',
           '--output-format', 'terse', '--export-json', out_json,
           '--harness-timeout', unit.timeout, '-j', str(unit.jobs)]
    if unit.unwind:
        cmd += ['--default-unwind', str(unit.unwind)]
    cmd += list(unit.flags) + list(extra_flags)
    # --harness matches substrings: pass fully qualified names with --exact
    modof = {}
    for a in unit.appends:
        rel = a['file'].split('/src/', 1)[1]
        parts = [x for x in rel[:-3].split('/') if x not in ('lib', 'mod', 'main')]
        modname = a.get('modname', 'vx_' + re.sub(r'\W', '_', os.path.splitext(a['module'])[0]))
        body = open(os.path.join(VERIF, 'contracts', 'kani', a['module'])).read()
        for m in re.finditer(r'fn\s+(\w+)\s*\(', body):
            modof.setdefault(m.group(1), '::'.join(parts + [modname]))
    cmd += ['--exact']
    for h in harnesses:
        h.qualified = (modof.get(h.name, '') + '::' + h.name).lstrip(':')
        cmd += ['--harness', h.qualified]
    env = dict(os.environ)
    env['CARGO_NET_OFFLINE'] = 'true'
    t0 = time.time()
    stop_watch = threading.Event()
    killed = []
    cap_kb = max(MEM_CAP_KB, int(getattr(unit, 'mem_gb', 0) or 0) * 1048576)
    threading.Thread(target=_memory_watchdog, args=(stop_watch, killed, cap_kb), daemon=True).start()
    try:
        p = subprocess.run(cmd, cwd=scratch.dir, capture_output=True, text=True, env=env, timeout=timeout_s)
        out = p.stdout + '\n' + p.stderr
        if killed:
            out += f'\nVX: memory watchdog killed {len(killed)} cbmc process(es) above {cap_kb // 1048576} GiB resident\n'
        rc = p.returncode
    except subprocess.TimeoutExpired as e:
        out = (e.stdout or b'').decode(errors='replace') if isinstance(e.stdout, bytes) else (e.stdout or '')
        out += '\nVX: cargo kani invocation timed out\n'
        rc = -9
        subprocess.run(['pkill', '-f', 'cbmc'], capture_output=True)
    finally:
        stop_watch.set()
    wall = time.time() - t0
    open(os.path.join(log_dir, f'{unit.name}.kani.log'), 'w').write(' '.join(cmd) + '\n' + out)
    info = {'cmd': ' '.join(cmd), 'wall_s': wall, 'rc': rc, 'build_error': None}
    data = None
    if os.path.exists(out_json):
        try:
            data = json.load(open(out_json))
        except Exception:
            data = None
    if data is None:
        # compile error or crash
        m = re.search(r'(error(\[E\d+\])?: .*?)(?=\n\n|\Z)', out, re.S)
        info['build_error'] = (m.group(1) if m else out[-3000:])[:6000]
        for h in harnesses:
            h.result = 'error'
        return info
    by_short = {}
    for hm in data.get('harness_metadata', []):
        by_short.setdefault(hm['pretty_name'].split('::')[-1], []).append(hm['pretty_name'])
    errs = {e['harness_id']: e for e in data.get('error_details', [])}
    props = {e['harness_id']: e['property_details'] for e in data.get('property_details', [])}
    times = {}
    for c in data.get('cbmc', []):
        hid = c.get('harness_id')
        stats = c.get('cbmc_stats') or c.get('stats') or {}
        times[hid] = stats
    # verification time per harness from stdout
    vt = {}
    cur = {}
    for line in out.splitlines():
        m = re.match(r'Thread (\d+): Checking harness (\S+?)\.\.\.', line)
        if m:
            cur[m.group(1)] = m.group(2)
        m = re.match(r'Checking harness (\S+?)\.\.\.', line)
        if m:
            cur['0'] = m.group(1)
    # failed checks text blocks
    blocks = re.split(r'(?m)^(?:Thread \d+: )?Checking harness ', out)
    fail_text = {}
    for m in re.finditer(r'(?ms)^(?:Thread \d+: \n)?VERIFICATION RESULT:\n(.*?)Verification Time: ([0-9.]+)s', out):
        pass
    for h in harnesses:
        full = by_short.get(h.name, [])
        full = [f for f in full if f'vx_' in f] or full
        if not full:
            h.result = 'missing'
            continue
        h.full_name = full[0]
        e = errs.get(h.full_name)
        pd = props.get(h.full_name) or {}
        h.checks = pd.get('total_properties')
        if e is None:
            h.result = 'error'
        elif not e.get('has_errors'):
            h.result = 'pass'
        else:
            st = (e.get('exit_status') or '') + ' ' + (e.get('error_type') or '')
            if 'timeout' in st.lower() or 'timed' in st.lower():
                h.result = 'timeout'
            elif (pd.get('failed') or 0) > 0:
                h.result = 'fail'
            elif pd.get('undetermined', 0) or pd.get('solver_error', 0):
                h.result = 'error'
            else:
                h.result = 'error' if 'properties_failed' not in st else 'fail'
            h.error_detail = e
    # attach failed-check text and times: with -j each result block is prefixed by its thread id,
    # and the thread's current harness is the last "Thread N: Checking harness" line before it
    cur = {}
    blk_thread = None
    by_full = {h.full_name: h for h in harnesses if h.full_name}
    lines = out.splitlines()
    k = 0
    while k < len(lines):
        line = lines[k]
        m = re.match(r'(?:Thread (\d+): )?Checking harness (\S+?)\.\.\.', line)
        if m:
            cur[m.group(1) or '0'] = m.group(2)
        m = re.match(r'Thread (\d+): *$', line)
        if m:
            blk_thread = m.group(1)
        if line.startswith('VERIFICATION RESULT:'):
            hname = cur.get(blk_thread or '0')
            h = by_full.get(hname)
            k += 1
            while k < len(lines) and not lines[k].startswith('Verification Time:'):
                mm = re.match(r'Failed Checks: (.*)', lines[k])
                if mm and h is not None:
                    loc = lines[k + 1] if k + 1 < len(lines) else ''
                    ml = re.match(r'\s*File: "([^"]+)", line (\d+), in (\S+)', loc)
                    h.failed_checks.append({'msg': mm.group(1), 'file': ml.group(1) if ml else '', 'line': int(ml.group(2)) if ml else 0,
                                            'in': ml.group(3) if ml else ''})
                k += 1
            if k < len(lines) and h is not None:
                mt = re.match(r'Verification Time: ([0-9.]+)s', lines[k])
                if mt:
                    h.time_s = float(mt.group(1))
            blk_thread = None
        k += 1
    for h in harnesses:
        # an unwinding-assertion failure is a bound problem of the harness, not a refutation
        if h.result == 'fail' and h.failed_checks and all('unwinding assertion' in c['msg'] for c in h.failed_checks):
            h.result = 'error'
        elif h.result == 'fail' and any('unwinding assertion' in c['msg'] for c in h.failed_checks):
            h.result = 'error'
    info['data'] = {'tools': data.get('tools'), 'kani_version': data.get('metadata', {}).get('kani_version')}
    info['out_tail'] = out[-2500:]
    return info


def playback(scratch, unit, harness, log_dir):
    """Ask Kani for a concrete counterexample and replay it natively on the real code."""
    cmd = ['cargo', 'kani', '-p', unit.crate, '--target-dir', TARGET_DIR, '-Z', 'function-contracts',
           '-Z', 'stubbing', '-Z', 'concrete-playback', '--concrete-playback=print', '--exact', '--harness',
           getattr(harness, 'qualified', None) or harness.full_name or harness.name]
    if unit.unwind:
        cmd += ['--default-unwind', str(unit.unwind)]
    cmd += list(unit.flags)
    env = dict(os.environ)
    env['CARGO_NET_OFFLINE'] = 'true'
    res = {'cmd': ' '.join(cmd), 'test_src': None, 'native': None, 'values': None}
    try:
        p = subprocess.run(cmd, cwd=scratch.dir, capture_output=True, text=True, env=env, timeout=1800)
    except subprocess.TimeoutExpired:
        res['native'] = 'playback generation timed out'
        return res
    out = p.stdout + p.stderr
    m = re.search(r'```\n?(.*?#\[test\].*?)```', out, re.S)
    if not m:
        res['native'] = 'kani printed no concrete playback test'
        res['kani_tail'] = out[-3000:]
        return res
    test_src = m.group(1)
    res['test_src'] = test_src
    res['values'] = re.findall(r'//\s*(.+)\n\s*vec!\[([^\]]*)\]', test_src)
    tn = re.search(r'fn (kani_concrete_playback_\w+)', test_src)
    if not tn or not harness.full_name:
        return res
    # append the test into the harness module of the scratch copy (restored afterwards)
    saved = None
    for a in unit.appends:
        p2 = os.path.join(scratch.dir, a['file'])
        s = open(p2).read()
        modname = a.get('modname', 'vx_' + re.sub(r'\W', '_', os.path.splitext(a['module'])[0]))
        if f'::{modname}::' in '::' + harness.full_name:
            k = s.rfind('}')
            saved = (p2, s)
            # only the test function itself: Kani's doc comment may span lines and break the syntax
            body = test_src[test_src.index('#[test]'):]
            open(p2, 'w').write(s[:k] + '\n' + body + '\n}\n')
            break
    # the native replay is compiled by plain rustc (cargo test): use the real tracing crate there
    ct = os.path.join(scratch.dir, 'Cargo.toml')
    t = open(ct).read()
    t2 = re.sub(r'\ntracing = \{ path = [^\n]*\n', '\n', t)
    if t2 != t:
        open(ct, 'w').write(t2)
    cmd2 = ['cargo', 'kani', 'playback', '-p', unit.crate, '-Z', 'concrete-playback', '--', tn.group(1)]
    env = dict(env)
    env['CARGO_TARGET_DIR'] = TARGET_DIR + '-playback'
    try:
        q = subprocess.run(cmd2, cwd=scratch.dir, capture_output=True, text=True, env=env, timeout=1800)
        o2 = q.stdout + q.stderr
        res['native_cmd'] = ' '.join(cmd2)
        mt = re.search(r'test result: (\w+)\. (\d+) passed; (\d+) failed', o2)
        if mt and int(mt.group(3)) > 0:
            pm = re.search(r"panicked at (.*?)\n(.*?)\n", o2)
            res['native_failed'] = True
            res['native'] = 'FAILED natively: ' + (pm.group(0).strip() if pm else 'test failed')
        elif mt:
            res['native'] = 'native replay passed (counterexample not reproduced natively)'
        else:
            res['native'] = 'native replay could not be built/run'
        res['native_tail'] = o2[-2500:]
    except subprocess.TimeoutExpired:
        res['native'] = 'native replay timed out'
    open(ct, 'w').write(t)  # restore the no-op tracing patch for later Kani runs in this scratch copy
    if saved:
        open(saved[0], 'w').write(saved[1])
    return res
