// C18 (first half, relational bounded twin of Verus unit c18_tls), appended to huginn-net-tls/src/packet_hash.rs:
// two raw IPv4/TCP packets with the same directed 4-tuple reach the same worker (and both get one) whatever
// else differs between them (IP id, TTL, lengths, sequence numbers, flags, window, payload bytes), also for the
// bare 40-byte segment.  The real DefaultHasher (SipHash) runs in CBMC; the worker count is fixed (a symbolic
// 64-bit modulus does not terminate).
use super::*;

const L: usize = 44;
fn packet(len: usize, a: [u8; 4], b: [u8; 4], pa: u16, pb: u16) -> [u8; L] {
    let mut p: [u8; L] = kani::any();
    p[0] = 0x45;
    p[9] = 6;
    p[12] = a[0]; p[13] = a[1]; p[14] = a[2]; p[15] = a[3];
    p[16] = b[0]; p[17] = b[1]; p[18] = b[2]; p[19] = b[3];
    let (x, y) = (pa.to_be_bytes(), pb.to_be_bytes());
    p[20] = x[0]; p[21] = x[1]; p[22] = y[0]; p[23] = y[1];
    let _ = len;
    p
}
#[kani::proof]
#[kani::unwind(70)]
fn c18_tls_same_flow_same_worker() {
    let a: [u8; 4] = kani::any();
    let b: [u8; 4] = kani::any();
    let (pa, pb): (u16, u16) = (kani::any(), kani::any());
    // raw-IP frames whose source address starts with 08 00 or 86 DD look like Ethernet frames to every link-type
    // guess in this code base (parser, raw filter and hash alike): outside this obligation, see DESIGN 5 C18
    kani::assume(!(a[0] == 0x08 && a[1] == 0x00) && !(a[0] == 0x86 && a[1] == 0xDD));
    kani::assume(!(b[0] == 0x08 && b[1] == 0x00) && !(b[0] == 0x86 && b[1] == 0xDD));
    let (l1, l2): (usize, usize) = (kani::any(), kani::any());
    kani::assume(l1 >= 40 && l1 <= L && l2 >= 40 && l2 <= L);
    let p1 = packet(l1, a, b, pa, pb);
    let p2 = packet(l2, a, b, pa, pb);
    let w1 = hash_flow(&p1[..l1], 4);
    let w2 = hash_flow(&p2[..l2], 4);
    assert!(w1.is_some() && w1.unwrap() < 4);
    assert!(w1 == w2);
}
