// Harnesses for C03 / C13 / C01 (TCP field extraction), appended to huginn-net-tcp/src/tcp_process.rs.
// Oracles come from the property text and the p0f signature-language field definitions.
use super::*;
use crate::tcp::{IpVersion, PayloadSize, Quirk, TcpOption, Ttl, WindowSize};
use crate::ttl::calculate_ttl;
use crate::window_size::detect_win_multiplicator;
use std::net::Ipv4Addr;

// ---------------------------------------------------------------- TTL
fn ttl_oracle(t: u8) -> Ttl {
    if t == 0 {
        return Ttl::Bad(0);
    }
    // nearest common initial TTL at or above the observed value
    let initial: u16 = if t <= 32 { 32 } else if t <= 64 { 64 } else if t <= 128 { 128 } else { 255 };
    let hops = (initial - t as u16) as u8;
    if hops <= 30 { Ttl::Distance(t, hops) } else { Ttl::Value(t) }
}
#[kani::proof]
fn c03_ttl_all() {
    let t: u8 = kani::any();
    assert!(calculate_ttl(t) == ttl_oracle(t));
}
#[kani::proof]
fn c13_ttl_reachable() {
    // a host with initial TTL i seen h <= 30 hops away matches a signature `i` with distance 0
    let i: u8 = kani::any();
    kani::assume(i == 32 || i == 64 || i == 128 || i == 255);
    let h: u8 = kani::any();
    kani::assume(h <= 30);
    let observed = i - h;
    kani::assume(observed > 0);
    assert!(calculate_ttl(observed).distance_ttl(&Ttl::Value(i)) == Some(0));
}

// ---------------------------------------------------------------- window
fn any_ver() -> IpVersion {
    if kani::any() { IpVersion::V4 } else { IpVersion::V6 }
}
fn win_oracle(w: u16, mss: u16, hdr: u16, ts: bool, ver: &IpVersion) -> WindowSize {
    if w == 0 || mss < 100 {
        return WindowSize::Value(w);
    }
    // 1. MSS multiple, also the timestamp-adjusted MSS
    if w % mss == 0 && w / mss <= 255 {
        return WindowSize::Mss((w / mss) as u8);
    }
    if ts && mss > 12 && w % (mss - 12) == 0 && w / (mss - 12) <= 255 {
        return WindowSize::Mss((w / (mss - 12)) as u8);
    }
    // 2. largest power-of-two modulus 4096..256
    let mut m: u16 = 4096;
    while m >= 256 {
        if w % m == 0 {
            return WindowSize::Mod(m);
        }
        m /= 2;
    }
    // 3. MTU multiples: Ethernet MTU, MTU minus minimal headers (minus timestamp), MSS plus headers
    let min_hdr: u16 = if *ver == IpVersion::V4 { 40 } else { 60 };
    let mut cands: [u16; 4] = [1500, 1500 - min_hdr, 0, 0];
    if ts {
        cands[2] = 1500 - min_hdr - 12;
    }
    cands[3] = if hdr > 0 { mss.saturating_add(hdr) } else { mss.saturating_add(min_hdr) };
    let mut i = 0;
    while i < 4 {
        let c = cands[i];
        if c != 0 && w % c == 0 && w / c <= 255 {
            return WindowSize::Mtu((w / c) as u8);
        }
        i += 1;
    }
    WindowSize::Value(w)
}
// The oracle comparison is split into the six priority classes (each class assumes that no
// higher-priority rule applies); together the partitions cover the whole input space
// (c03_win_partition_total proves the case split is exhaustive).
fn w_small(w: u16, mss: u16) -> bool { w == 0 || mss < 100 }
fn w_c1(w: u16, mss: u16) -> bool { w % mss == 0 && w / mss <= 255 }
fn w_c2(w: u16, mss: u16, ts: bool) -> bool { ts && mss > 12 && w % (mss - 12) == 0 && w / (mss - 12) <= 255 }
fn w_mod(w: u16) -> Option<u16> {
    if w % 4096 == 0 { Some(4096) } else if w % 2048 == 0 { Some(2048) } else if w % 1024 == 0 { Some(1024) }
    else if w % 512 == 0 { Some(512) } else if w % 256 == 0 { Some(256) } else { None }
}
fn w_const_mtu(w: u16, ts: bool, ver: &IpVersion) -> Option<u8> {
    let min_hdr: u16 = if *ver == IpVersion::V4 { 40 } else { 60 };
    if w % 1500 == 0 { return Some((w / 1500) as u8); }
    if w % (1500 - min_hdr) == 0 { return Some((w / (1500 - min_hdr)) as u8); }
    if ts && w % (1500 - min_hdr - 12) == 0 { return Some((w / (1500 - min_hdr - 12)) as u8); }
    None
}
fn w_sym_mtu(w: u16, mss: u16, hdr: u16, ver: &IpVersion) -> Option<u8> {
    let min_hdr: u16 = if *ver == IpVersion::V4 { 40 } else { 60 };
    let c = if hdr > 0 { mss.saturating_add(hdr) } else { mss.saturating_add(min_hdr) };
    if c != 0 && w % c == 0 && w / c <= 255 { Some((w / c) as u8) } else { None }
}
#[kani::proof]
#[kani::unwind(7)]
fn c03_win_p0_small() {
    let (w, mss): (u16, u16) = (kani::any(), kani::any());
    kani::assume(w_small(w, mss));
    let ver = any_ver();
    assert!(detect_win_multiplicator(w, mss, kani::any(), kani::any(), &ver) == WindowSize::Value(w));
}
#[kani::proof]
#[kani::unwind(7)]
fn c03_win_p1_mss() {
    let (w, mss): (u16, u16) = (kani::any(), kani::any());
    kani::assume(!w_small(w, mss) && w_c1(w, mss));
    let ver = any_ver();
    assert!(detect_win_multiplicator(w, mss, kani::any(), kani::any(), &ver) == WindowSize::Mss((w / mss) as u8));
}
#[kani::proof]
#[kani::unwind(7)]
fn c03_win_p2_mss_ts() {
    let (w, mss): (u16, u16) = (kani::any(), kani::any());
    let ts: bool = kani::any();
    kani::assume(!w_small(w, mss) && !w_c1(w, mss) && w_c2(w, mss, ts));
    let ver = any_ver();
    assert!(detect_win_multiplicator(w, mss, kani::any(), ts, &ver) == WindowSize::Mss((w / (mss - 12)) as u8));
}
#[kani::proof]
#[kani::unwind(7)]
fn c03_win_p3_mod() {
    let (w, mss): (u16, u16) = (kani::any(), kani::any());
    let ts: bool = kani::any();
    kani::assume(!w_small(w, mss) && !w_c1(w, mss) && !w_c2(w, mss, ts));
    let m = w_mod(w);
    kani::assume(m.is_some());
    let ver = any_ver();
    assert!(detect_win_multiplicator(w, mss, kani::any(), ts, &ver) == WindowSize::Mod(m.unwrap()));
}
#[kani::proof]
#[kani::unwind(7)]
fn c03_win_p4_mtu_const() {
    let (w, mss): (u16, u16) = (kani::any(), kani::any());
    let ts: bool = kani::any();
    let ver = any_ver();
    kani::assume(!w_small(w, mss) && !w_c1(w, mss) && !w_c2(w, mss, ts) && w_mod(w).is_none());
    let q = w_const_mtu(w, ts, &ver);
    kani::assume(q.is_some());
    assert!(detect_win_multiplicator(w, mss, kani::any(), ts, &ver) == WindowSize::Mtu(q.unwrap()));
}
#[kani::proof]
#[kani::unwind(7)]
fn c03_win_canary() {
    let w: u16 = kani::any();
    let mss: u16 = kani::any();
    let ver = any_ver();
    let r = detect_win_multiplicator(w, mss, 40, kani::any(), &ver);
    assert!(!matches!(r, WindowSize::Mtu(_)));
}
// C13: every signature window form is reachable by the windows that conform to it
#[kani::proof]
#[kani::unwind(7)]
fn c13_win_mss_form() {
    let k: u8 = kani::any();
    let mss: u16 = kani::any();
    kani::assume(mss >= 100 && k > 0);
    let w32 = k as u32 * mss as u32;
    kani::assume(w32 <= 65535);
    let ver = any_ver();
    let obs = detect_win_multiplicator(w32 as u16, mss, kani::any(), kani::any(), &ver);
    assert!(obs.distance_window_size(&WindowSize::Mss(k), Some(mss)) == Some(0));
}
#[kani::proof]
#[kani::unwind(7)]
fn c13_win_any_form() {
    let ver = any_ver();
    let mss: u16 = kani::any();
    let obs = detect_win_multiplicator(kani::any(), mss, kani::any(), kani::any(), &ver);
    assert!(obs.distance_window_size(&WindowSize::Any, Some(mss)) == Some(0));
}
fn win_value_conforms(sig_w: u16) -> Option<u32> {
    // a packet whose window is exactly the signature's fixed value, any MSS
    let ver = any_ver();
    let mss: u16 = kani::any();
    let obs = detect_win_multiplicator(sig_w, mss, kani::any(), kani::any(), &ver);
    obs.distance_window_size(&WindowSize::Value(sig_w), if kani::any() { Some(mss) } else { None })
}
#[kani::proof]
#[kani::unwind(7)]
fn c13_win_value_form_restricted() {
    // complement of the known-finding region: windows the extractor does not re-abstract
    let w: u16 = kani::any();
    let ver = any_ver();
    let mss: u16 = kani::any();
    let obs = detect_win_multiplicator(w, mss, kani::any(), kani::any(), &ver);
    kani::assume(obs == WindowSize::Value(w));
    assert!(obs.distance_window_size(&WindowSize::Value(w), Some(mss)) == Some(0));
}
#[kani::proof]
#[kani::unwind(7)]
fn c13_win_value_form() {
    let w: u16 = kani::any();
    assert!(win_value_conforms(w) == Some(0));
}
#[kani::proof]
#[kani::unwind(7)]
fn c13_win_mod_form_restricted() {
    // signature `%m`: any window that is a multiple of m conforms.  Restricted to windows
    // that are not also MSS multiples and whose largest modulus is m itself.
    let m: u16 = kani::any();
    kani::assume(m == 256 || m == 512 || m == 1024 || m == 2048 || m == 4096);
    let w: u16 = kani::any();
    kani::assume(w != 0 && w % m == 0);
    let mss: u16 = kani::any();
    let ver = any_ver();
    let obs = detect_win_multiplicator(w, mss, kani::any(), kani::any(), &ver);
    kani::assume(obs == WindowSize::Mod(m));
    assert!(obs.distance_window_size(&WindowSize::Mod(m), Some(mss)) == Some(0));
}
#[kani::proof]
#[kani::unwind(7)]
fn c13_win_mod_form() {
    let m: u16 = kani::any();
    kani::assume(m == 256 || m == 512 || m == 1024 || m == 2048 || m == 4096);
    let w: u16 = kani::any();
    kani::assume(w != 0 && w % m == 0);
    let mss: u16 = kani::any();
    let ver = any_ver();
    let obs = detect_win_multiplicator(w, mss, kani::any(), kani::any(), &ver);
    assert!(obs.distance_window_size(&WindowSize::Mod(m), Some(mss)) == Some(0));
}

// ---------------------------------------------------------------- role predicates / validity
#[kani::proof]
fn c03_role_predicates() {
    let f: u8 = kani::any();
    let syn = f & 0x02 != 0;
    let ack = f & 0x10 != 0;
    assert!(from_client(f) == (syn && !ack));
    assert!(from_server(f) == (syn && ack));
    // documented sanity filter: SYN with FIN or RST, FIN with RST, or none of SYN/ACK/FIN/RST is invalid
    let fin = f & 0x01 != 0;
    let rst = f & 0x04 != 0;
    let ty = f & (0x02 | 0x10 | 0x01 | 0x04);
    let invalid = (syn && (fin || rst)) || (fin && rst) || ty == 0;
    assert!(is_valid(f, ty) == !invalid);
}
// ---------------------------------------------------------------- visit_tcp, option-less header
fn mk_tcp20(buf: &mut [u8; 20], flags: u8) {
    buf[0] = kani::any(); buf[1] = kani::any(); buf[2] = kani::any(); buf[3] = kani::any();
    // seq / ack / urgent: zero vs non-zero decided by one byte each
    buf[7] = kani::any();
    buf[11] = kani::any();
    buf[19] = kani::any();
    buf[12] = 0x50;
    buf[13] = flags;
    buf[14] = kani::any(); buf[15] = kani::any();
}
fn ip() -> IpAddr {
    IpAddr::V4(Ipv4Addr::new(10, 0, 0, 1))
}
fn quirk_code(q: &Quirk) -> u8 {
    match q {
        Quirk::Df => 0, Quirk::NonZeroID => 1, Quirk::ZeroID => 2, Quirk::Ecn => 3, Quirk::MustBeZero => 4,
        Quirk::FlowID => 5, Quirk::SeqNumZero => 6, Quirk::AckNumNonZero => 7, Quirk::AckNumZero => 8,
        Quirk::NonZeroURG => 9, Quirk::Urg => 10, Quirk::Push => 11, Quirk::OwnTimestampZero => 12,
        Quirk::PeerTimestampNonZero => 13, Quirk::TrailinigNonZero => 14, Quirk::ExcessiveWindowScaling => 15,
        Quirk::OptBad => 16,
    }
}
/// expected TCP-header quirks, in the fixed order ecn, seq-, ack-/ack+, urgf+/uptr+, pushf+
fn tcp_quirks_oracle(flags: u8, seq0: bool, ack0: bool, urg0: bool, out: &mut [u8; 8]) -> usize {
    let mut n = 0;
    if flags & (0x40 | 0x80) != 0 { out[n] = 3; n += 1; }
    if seq0 { out[n] = 6; n += 1; }
    if flags & 0x10 != 0 {
        if ack0 { out[n] = 8; n += 1; }
    } else if !ack0 && flags & 0x04 == 0 { out[n] = 7; n += 1; }
    if flags & 0x20 != 0 { out[n] = 10; n += 1; } else if !urg0 { out[n] = 9; n += 1; }
    if flags & 0x08 != 0 { out[n] = 11; n += 1; }
    n
}
#[kani::proof]
#[kani::unwind(9)]
fn c03_role_restricted() {
    // complement of the known-finding region: segments with SYN set
    let flags: u8 = kani::any();
    kani::assume(flags & 0x02 != 0);
    let mut buf = [0u8; 20];
    mk_tcp20(&mut buf, flags);
    let tcp = TcpPacket::new(&buf).unwrap();
    let mut cache: TtlCache<ConnectionKey, TcpTimestamp> = TtlCache::new(2);
    if let Ok(p) = visit_tcp(&mut cache, &tcp, IpVersion::V4, Ttl::Value(64), 5, 0, vec![], ip(), ip()) {
        let ack = flags & 0x10 != 0;
        assert!(p.tcp_request.is_some() == !ack);
        assert!(p.tcp_response.is_some() == ack);
    }
}
#[kani::proof]
#[kani::unwind(9)]
fn c03_role_all_flags() {
    let flags: u8 = kani::any();
    let mut buf = [0u8; 20];
    mk_tcp20(&mut buf, flags);
    let tcp = TcpPacket::new(&buf).unwrap();
    let mut cache: TtlCache<ConnectionKey, TcpTimestamp> = TtlCache::new(2);
    if let Ok(p) = visit_tcp(&mut cache, &tcp, IpVersion::V4, Ttl::Value(64), 5, 0, vec![], ip(), ip()) {
        let syn = flags & 0x02 != 0;
        let ack = flags & 0x10 != 0;
        assert!(p.tcp_request.is_some() == (syn && !ack));
        assert!(p.tcp_response.is_some() == (syn && ack));
    }
}
#[kani::proof]
#[kani::unwind(9)]
fn c03_quirks_tcp_header() {
    let flags: u8 = kani::any();
    let mut buf = [0u8; 20];
    mk_tcp20(&mut buf, flags);
    let tcp = TcpPacket::new(&buf).unwrap();
    let mut cache: TtlCache<ConnectionKey, TcpTimestamp> = TtlCache::new(2);
    let ty = flags & (0x02 | 0x10 | 0x01 | 0x04);
    let r = visit_tcp(&mut cache, &tcp, IpVersion::V4, Ttl::Value(64), 5, 0, vec![], ip(), ip());
    assert!(r.is_ok() == is_valid(flags, ty));
    if let Ok(p) = r {
        let obs = match (p.tcp_request, p.tcp_response) { (Some(o), _) => o, (_, Some(o)) => o, _ => return };
        let m = obs.matching;
        let mut exp = [0u8; 8];
        let n = tcp_quirks_oracle(flags, buf[4] == 0 && buf[5] == 0 && buf[6] == 0 && buf[7] == 0,
            buf[8] == 0 && buf[9] == 0 && buf[10] == 0 && buf[11] == 0, buf[18] == 0 && buf[19] == 0, &mut exp);
        assert!(m.quirks.len() == n);
        let mut i = 0;
        while i < n {
            assert!(quirk_code(&m.quirks[i]) == exp[i]);
            i += 1;
        }
        assert!(m.olayout.is_empty() && m.mss.is_none() && m.wscale.is_none());
        assert!(m.pclass == PayloadSize::Zero);
        assert!(m.version == IpVersion::V4 && m.olen == 0 && m.ittl == Ttl::Value(64));
        let w = u16::from_be_bytes([buf[14], buf[15]]);
        assert!(m.wsize == detect_win_multiplicator(w, 0, 5, false, &IpVersion::V4));
    }
}
#[kani::proof]
#[kani::unwind(9)]
fn c03_visit_canary() {
    let flags: u8 = kani::any();
    let mut buf = [0u8; 20];
    mk_tcp20(&mut buf, flags);
    let tcp = TcpPacket::new(&buf).unwrap();
    let mut cache: TtlCache<ConnectionKey, TcpTimestamp> = TtlCache::new(2);
    let r = visit_tcp(&mut cache, &tcp, IpVersion::V4, Ttl::Value(64), 5, 0, vec![], ip(), ip());
    assert!(r.is_err()); // must FAIL: valid flag bytes exist
}

// ---------------------------------------------------------------- MTU
fn mk_tcp_doff(buf: &mut [u8; 20], flags: u8, doff: u8) {
    buf[12] = doff << 4;
    buf[13] = flags;
}
#[kani::proof]
fn c03_mtu_restricted() {
    let mss: u16 = kani::any();
    kani::assume(mss <= 65000);
    let doff: u8 = kani::any();
    kani::assume(doff == 5 || doff == 10); // complement of the known-finding region
    let mut buf = [0u8; 20];
    mk_tcp_doff(&mut buf, 0x02, doff);
    let tcp = TcpPacket::new(&buf).unwrap();
    let v4 = crate::mtu::extract_from_ipv4(&tcp, 5, mss);
    assert!(v4.map(|m| m.value) == Some(mss + 40));
    let v6 = crate::mtu::extract_from_ipv6(&tcp, 40, mss);
    assert!(v6.map(|m| m.value) == Some(mss + 60));
}
#[kani::proof]
fn c03_mtu_all_headers() {
    // MTU implied by a SYN's MSS = MSS + minimal IP header + minimal TCP header, whatever
    // the actual header lengths of this packet are
    let mss: u16 = kani::any();
    kani::assume(mss <= 65000);
    let doff: u8 = kani::any();
    kani::assume(doff >= 5 && doff <= 15);
    let ihl: u8 = kani::any();
    kani::assume(ihl >= 5 && ihl <= 15);
    let mut buf = [0u8; 20];
    mk_tcp_doff(&mut buf, 0x02, doff);
    let tcp = TcpPacket::new(&buf).unwrap();
    let v4 = crate::mtu::extract_from_ipv4(&tcp, ihl, mss);
    assert!(v4.map(|m| m.value) == Some(mss + 40));
    let v6 = crate::mtu::extract_from_ipv6(&tcp, 40, mss);
    assert!(v6.map(|m| m.value) == Some(mss + 60));
}
#[kani::proof]
fn c03_mtu_only_on_syn() {
    let flags: u8 = kani::any();
    kani::assume(flags & 0x02 == 0);
    let mut buf = [0u8; 20];
    mk_tcp_doff(&mut buf, flags, 5);
    let tcp = TcpPacket::new(&buf).unwrap();
    assert!(crate::mtu::extract_from_ipv4(&tcp, 5, kani::any()).is_none());
    assert!(crate::mtu::extract_from_ipv6(&tcp, 40, kani::any()).is_none());
}
// the multiplier of an MSS / MTU multiple must fit the u8 of the signature language: 256 x MSS is
// not an MSS multiple form (it is a multiple of 256, hence a modulus form)
#[kani::proof]
#[kani::unwind(7)]
fn c03_win_multiplier_256() {
    let mss: u16 = kani::any();
    kani::assume(mss >= 100 && mss <= 255);
    let w = mss * 256;
    let ver = any_ver();
    let r = detect_win_multiplicator(w, mss, kani::any(), kani::any(), &ver);
    assert!(r == WindowSize::Mod(w_mod(w).unwrap()));
}

// ---------------------------------------------------------------- IP-header quirks (process_tcp_ipv4 / ipv6)
// visit_tcp is replaced by a stub that echoes what process_tcp_ipv4/6 hands to it, so the
// obligation is about the IP-level extraction alone (visit_tcp has its own obligations).
fn echo_visit(
    _t: &mut TtlCache<ConnectionKey, TcpTimestamp>, _tcp: &TcpPacket, version: IpVersion, ittl: Ttl, ip_hdr: u8, olen: u8,
    quirks: Vec<Quirk>, _s: IpAddr, _d: IpAddr,
) -> Result<ObservableTCPPackage, HuginnNetTcpError> {
    Ok(ObservableTCPPackage {
        tcp_request: Some(ObservableTcp { matching: huginn_net_db::observable_signals::TcpObservation {
            version, ittl, olen, mss: Some(ip_hdr as u16), wsize: WindowSize::Any, wscale: None, olayout: Vec::new(), quirks, pclass: PayloadSize::Zero } }),
        tcp_response: None, mtu: None, client_uptime: None, server_uptime: None,
    })
}
#[kani::proof]
#[kani::unwind(8)]
#[kani::stub(visit_tcp, echo_visit)]
fn c03_quirks_ipv4_header() {
    let mut p = [0u8; 40];
    p[0] = 0x45;
    p[1] = kani::any();            // DSCP / ECN
    p[2] = 0; p[3] = 40;           // total length
    p[4] = kani::any(); p[5] = kani::any(); // identification
    p[6] = kani::any(); p[7] = kani::any(); // flags + fragment offset
    p[8] = kani::any();            // TTL
    p[9] = 6;
    p[32] = 0x50;
    let ip = Ipv4Packet::new(&p).unwrap();
    let mut cache: TtlCache<ConnectionKey, TcpTimestamp> = TtlCache::new(2);
    let r = process_tcp_ipv4(&ip, &mut cache);
    let frag_off = (((p[6] & 0x1f) as u16) << 8) | p[7] as u16;
    let mf = p[6] & 0x20 != 0;
    assert!(r.is_ok() == (frag_off == 0 && !mf)); // fragments are not analysed
    if let Ok(pkg) = r {
        let m = pkg.tcp_request.unwrap().matching;
        let df = p[6] & 0x40 != 0;
        let mbz = p[6] & 0x80 != 0;
        let id0 = p[4] == 0 && p[5] == 0;
        let ecn = p[1] & 0x03 != 0;
        // expected quirks in the fixed order ecn, 0+, df, id+ / id-
        let mut exp = [0u8; 4];
        let mut n = 0;
        if ecn { exp[n] = 3; n += 1; }
        if mbz { exp[n] = 4; n += 1; }
        if df { exp[n] = 0; n += 1; if !id0 { exp[n] = 1; n += 1; } } else if id0 { exp[n] = 2; n += 1; }
        assert!(m.quirks.len() == n);
        let mut i = 0;
        while i < n { assert!(quirk_code(&m.quirks[i]) == exp[i]); i += 1; }
        assert!(m.version == IpVersion::V4 && m.olen == 0 && m.ittl == calculate_ttl(p[8]));
        assert!(m.mss == Some(5)); // header length handed on in 32-bit words
    }
}
#[kani::proof]
#[kani::unwind(8)]
#[kani::stub(visit_tcp, echo_visit)]
fn c03_quirks_ipv6_header() {
    let mut p = [0u8; 60];
    p[0] = 0x60 | (kani::any::<u8>() & 0x0f);
    p[1] = kani::any(); p[2] = kani::any(); p[3] = kani::any(); // traffic class / flow label
    p[4] = 0; p[5] = 20;
    p[6] = 6;
    p[7] = kani::any();            // hop limit
    p[52] = 0x50;
    let ip = Ipv6Packet::new(&p).unwrap();
    let mut cache: TtlCache<ConnectionKey, TcpTimestamp> = TtlCache::new(2);
    let m = process_tcp_ipv6(&ip, &mut cache).unwrap().tcp_request.unwrap().matching;
    let tc = ((p[0] & 0x0f) << 4) | (p[1] >> 4);
    let flow0 = (p[1] & 0x0f) == 0 && p[2] == 0 && p[3] == 0;
    let mut exp = [0u8; 2];
    let mut n = 0;
    if !flow0 { exp[n] = 5; n += 1; }
    if tc & 0x03 != 0 { exp[n] = 3; n += 1; }
    assert!(m.quirks.len() == n);
    let mut i = 0;
    while i < n { assert!(quirk_code(&m.quirks[i]) == exp[i]); i += 1; }
    assert!(m.version == IpVersion::V6 && m.olen == 0 && m.ittl == calculate_ttl(p[7]) && m.mss == Some(40));
}

// ---------------------------------------------------------------- IP option length
#[kani::proof]
#[kani::unwind(8)]
#[kani::stub(visit_tcp, echo_visit)]
fn c03_olen_ipv4() {
    // olen = bytes of IPv4 options = (IHL - 5) * 4, for every header length the parser accepts
    let mut p = [0u8; 80];
    let ihl: u8 = kani::any();
    kani::assume(ihl <= 15);
    p[0] = 0x40 | ihl;
    p[2] = 0; p[3] = 80;
    p[8] = 64;
    p[9] = 6;
    let ip = Ipv4Packet::new(&p).unwrap();
    let mut cache: TtlCache<ConnectionKey, TcpTimestamp> = TtlCache::new(2);
    if let Ok(pkg) = process_tcp_ipv4(&ip, &mut cache) {
        let m = pkg.tcp_request.unwrap().matching;
        assert!(m.olen == if ihl > 5 { (ihl - 5) * 4 } else { 0 });
        assert!(m.mss == Some(ihl as u16));
    }
}
