// Bounded cross-check of the incremental ClientHello reader (unbounded proof: Verus units c08_reader /
// c11_reader), appended to huginn-net-tls/src/tls_client_hello_reader.rs.  It keeps deciding small
// instances when a rewrite of add_bytes leaves the Verus subset or loses a hint anchor.
use super::*;
use crate::error::HuginnNetTlsError;
use crate::tls::TlsVersion;

/// deterministic stand-in for the external parser: the outcome depends only on the bytes it is given
fn stub_parse(d: &[u8]) -> Result<Option<Signature>, HuginnNetTlsError> {
    let tag = if d.len() > 5 { d[5] & 3 } else { 3 };
    if tag == 1 {
        Ok(Some(Signature { version: TlsVersion::V1_2, cipher_suites: vec![d.len() as u16], extensions: Vec::new(), elliptic_curves: Vec::new(),
            elliptic_curve_point_formats: Vec::new(), signature_algorithms: Vec::new(), sni: None, alpn: None }))
    } else if tag == 2 { Ok(None) } else { Err(HuginnNetTlsError::Unknown) }
}
const N: usize = 10;
/// the specification step on plain bytes: returns (new buffer length, new buffer first byte if any, done, outcome 0=none 1=got(len) 2=err)
struct Model { buf: [u8; 2 * N], len: usize, done: bool }
fn model_step(m: &mut Model, data: &[u8]) -> (u8, usize) {
    if m.done { return (0, 0); }
    let mut i = 0;
    while i < data.len() { m.buf[m.len + i] = data[i]; i += 1; }
    m.len += data.len();
    if m.len < 5 { return (0, 0); }
    if m.buf[0] != 0x16 { m.len = 0; return (0, 0); }
    let needed = (((m.buf[3] as usize) << 8) | m.buf[4] as usize) + 5;
    if m.len < needed { return (0, 0); }
    if needed > 65536 { m.len = 0; return (2, 0); }
    let tag = if needed > 5 { m.buf[5] & 3 } else { 3 };
    if tag == 1 {
        // keep the tail
        let mut k = 0;
        while k + needed < m.len { m.buf[k] = m.buf[k + needed]; k += 1; }
        m.len -= needed;
        m.done = true;
        (1, needed)
    } else if tag == 2 { m.len = 0; (0, 0) } else { m.len = 0; (2, 0) }
}
fn check_sequence(bytes: &[u8; N], n1: usize, n2: usize, check_buffer: bool) {
    let mut r = TlsClientHelloReader::new();
    let mut m = Model { buf: [0u8; 2 * N], len: 0, done: false };
    let mut step = 0;
    while step < 2 {
        let chunk = if step == 0 { &bytes[..n1] } else { &bytes[n1..n1 + n2] };
        let got = r.add_bytes(chunk);
        let (out, l) = model_step(&mut m, chunk);
        match got {
            Ok(None) => assert!(out == 0),
            Ok(Some(sig)) => assert!(out == 1 && sig.cipher_suites.len() == 1 && sig.cipher_suites[0] as usize == l),
            Err(_) => assert!(out == 2),
        }
        assert!(r.signature_parsed() == m.done);
        if check_buffer { assert!(r.buffer_len() == m.len); }
        step += 1;
    }
}
// cuts are fixed per harness (symbolic cut positions did not terminate); contents are symbolic
#[kani::proof]
#[kani::unwind(24)]
#[kani::stub(crate::tls_process::parse_tls_client_hello, stub_parse)]
fn c08_reader_cut_3_7() {
    let bytes: [u8; N] = kani::any();
    kani::assume(bytes[3] == 0 && bytes[4] < 6);
    check_sequence(&bytes, 3, 7, false);
}
#[kani::proof]
#[kani::unwind(24)]
#[kani::stub(crate::tls_process::parse_tls_client_hello, stub_parse)]
fn c11_reader_cut_3_7_buffer() {
    let bytes: [u8; N] = kani::any();
    kani::assume(bytes[3] == 0 && bytes[4] < 6);
    check_sequence(&bytes, 3, 7, true);
}
