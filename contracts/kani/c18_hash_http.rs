// C18 for the HTTP pool: worker = hash_flow(frame, n); identity = the 4-tuple irrespective of direction.
use super::*;
const N: usize = 80;
const IHL: usize = 5;
const NW: usize = 8;

fn mk_frames(ipoff: usize, v6: bool, swap: bool) -> ([u8; N], [u8; N], usize, usize) {
    let p: [u8; N] = kani::any();
    let mut q: [u8; N] = kani::any();
    let (lp, lq): (usize, usize) = (kani::any(), kani::any());
    kani::assume(lp <= N && lq <= N);
    if ipoff == 14 {
        kani::assume(p[12] == if v6 { 0x86 } else { 0x08 } && p[13] == if v6 { 0xDD } else { 0x00 });
        q[12] = p[12];
        q[13] = p[13];
    }
    kani::assume(p[ipoff] >> 4 == if v6 { 6 } else { 4 });
    // TCP, same header length on both (ports are located through it)
    // header length fixed per harness instance (IHL 5; options are covered by the *_ihl6 instances)
    let ihl: usize = if v6 { 10 } else { IHL };
    kani::assume(v6 || (p[ipoff] & 0x0f) as usize == ihl);
    q[ipoff] = p[ipoff];
    if v6 { kani::assume(p[ipoff + 6] == 6); q[ipoff + 6] = 6; } else { kani::assume(p[ipoff + 9] == 6); q[ipoff + 9] = 6; }
    let tcp = ipoff + ihl * 4;
    kani::assume(lp >= tcp + 20 && lq >= tcp + 20);
    let (sa, da, alen) = if v6 { (ipoff + 8, ipoff + 24, 16) } else { (ipoff + 12, ipoff + 16, 4) };
    let mut i = 0;
    while i < alen {
        if swap { q[sa + i] = p[da + i]; q[da + i] = p[sa + i]; } else { q[sa + i] = p[sa + i]; q[da + i] = p[da + i]; }
        i += 1;
    }
    if swap {
        q[tcp] = p[tcp + 2]; q[tcp + 1] = p[tcp + 3]; q[tcp + 2] = p[tcp]; q[tcp + 3] = p[tcp + 1];
    } else {
        q[tcp] = p[tcp]; q[tcp + 1] = p[tcp + 1]; q[tcp + 2] = p[tcp + 2]; q[tcp + 3] = p[tcp + 3];
    }
    if ipoff == 0 {
        kani::assume(!((p[12] == 0x08 && p[13] == 0x00) || (p[12] == 0x86 && p[13] == 0xDD)));
        kani::assume(!((q[12] == 0x08 && q[13] == 0x00) || (q[12] == 0x86 && q[13] == 0xDD)));
    }
    (p, q, lp, lq)
}
fn same_flow(ipoff: usize, v6: bool, swap: bool) {
    let (p, q, lp, lq) = mk_frames(ipoff, v6, swap);
    // worker counts are enumerated (division by a symbolic 64-bit divisor does not terminate in CBMC)
    let mut n: usize = 1;
    while n <= NW {
        assert!(hash_flow(&p[..lp], n) == hash_flow(&q[..lq], n));
        n += 1;
    }
}
#[kani::proof]
#[kani::unwind(18)]
fn c18_http_identity_eth_v4() { same_flow(14, false, false); }
#[kani::proof]
#[kani::unwind(18)]
fn c18_http_identity_eth_v6() { same_flow(14, true, false); }
#[kani::proof]
#[kani::unwind(18)]
fn c18_http_identity_raw_v4() { same_flow(0, false, false); }
#[kani::proof]
#[kani::unwind(18)]
fn c18_http_symmetry_eth_v4() { same_flow(14, false, true); }
#[kani::proof]
#[kani::unwind(18)]
fn c18_http_symmetry_eth_v6() { same_flow(14, true, true); }
#[kani::proof]
fn c18_http_range() {
    let p: [u8; N] = kani::any();
    let l: usize = kani::any();
    kani::assume(l <= N);
    let mut n: usize = 1;
    while n <= NW {
        assert!(hash_flow(&p[..l], n) < n);
        n += 1;
    }
}
