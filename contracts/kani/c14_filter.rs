// Harnesses for C14, appended to <crate>/src/filter.rs (identical text for the three crates).
use super::*;

fn any_ports(max: usize) -> Vec<u16> {
    // literal vectors (one allocation each) keep CBMC's heap model small
    match kani::any::<u8>() % 3 {
        0 => Vec::new(),
        1 => vec![kani::any()],
        _ => if max >= 2 { vec![kani::any(), kani::any()] } else { vec![kani::any()] },
    }
}
fn any_ranges(_max: usize) -> Vec<(u16, u16)> {
    if kani::any() { Vec::new() } else { vec![(kani::any(), kani::any())] }
}
fn in_list(ports: &[u16], ranges: &[(u16, u16)], p: u16) -> bool {
    let mut i = 0;
    while i < ports.len() {
        if ports[i] == p { return true; }
        i += 1;
    }
    let mut j = 0;
    while j < ranges.len() {
        if ranges[j].0 <= p && p <= ranges[j].1 { return true; }
        j += 1;
    }
    false
}
/// documented rule: a side without constraints is unconstrained; any-port mode takes the union
fn port_oracle(f: &PortFilter, sp: u16, dp: u16) -> bool {
    if f.match_any {
        in_list(&f.source_ports, &f.source_ranges, sp) || in_list(&f.destination_ports, &f.destination_ranges, sp)
            || in_list(&f.source_ports, &f.source_ranges, dp) || in_list(&f.destination_ports, &f.destination_ranges, dp)
    } else {
        let s_un = f.source_ports.is_empty() && f.source_ranges.is_empty();
        let d_un = f.destination_ports.is_empty() && f.destination_ranges.is_empty();
        (s_un || in_list(&f.source_ports, &f.source_ranges, sp)) && (d_un || in_list(&f.destination_ports, &f.destination_ranges, dp))
    }
}
#[kani::proof]
#[kani::unwind(8)]
fn c14_port_matches() {
    let f = PortFilter {
        source_ports: any_ports(2), destination_ports: any_ports(2),
        source_ranges: any_ranges(1), destination_ranges: any_ranges(1), match_any: false,
    };
    let (sp, dp): (u16, u16) = (kani::any(), kani::any());
    assert!(f.matches(sp, dp) == port_oracle(&f, sp, dp));
}
#[kani::proof]
#[kani::unwind(8)]
fn c14_port_canary() {
    let f = PortFilter { source_ports: any_ports(2), destination_ports: any_ports(2), source_ranges: any_ranges(1), destination_ranges: any_ranges(1), match_any: false };
    assert!(f.matches(kani::any(), kani::any()));
}
#[kani::proof]
#[kani::unwind(4)]
fn c14_range_builder_half_open() {
    // `a..b` admits exactly the ports a <= p < b, including the boundary ranges 0..0 and x..65535
    let (a, b, p, other): (u16, u16, u16, u16) = (kani::any(), kani::any(), kani::any(), kani::any());
    let d = PortFilter::new().destination_range(a..b);
    assert!(d.matches(other, p) == (a <= p && p < b));
    let s = PortFilter::new().source_range(a..b);
    assert!(s.matches(p, other) == (a <= p && p < b));
}
#[kani::proof]
#[kani::unwind(4)]
fn c14_port_builders() {
    let (x, sp, dp): (u16, u16, u16) = (kani::any(), kani::any(), kani::any());
    assert!(PortFilter::new().destination(x).matches(sp, dp) == (dp == x));
    assert!(PortFilter::new().source(x).matches(sp, dp) == (sp == x));
    assert!(PortFilter::new().destination(x).any_port().matches(sp, dp) == (sp == x || dp == x));
    assert!(PortFilter::new().matches(sp, dp));
}

#[kani::proof]
#[kani::unwind(6)]
fn c14_any_port_range() {
    // any-port mode with one half-open range on either side: either port inside the range matches
    let (a, b, sp, dp): (u16, u16, u16, u16) = (kani::any(), kani::any(), kani::any(), kani::any());
    let inside = |p: u16| a <= p && p < b;
    assert!(PortFilter::new().destination_range(a..b).any_port().matches(sp, dp) == (inside(sp) || inside(dp)));
    assert!(PortFilter::new().source_range(a..b).any_port().matches(sp, dp) == (inside(sp) || inside(dp)));
}
fn any_v4() -> Ipv4Addr { Ipv4Addr::from(kani::any::<u32>()) }
fn any_v6() -> Ipv6Addr { Ipv6Addr::from(kani::any::<u128>()) }
fn any_ip() -> IpAddr { if kani::any() { IpAddr::V4(any_v4()) } else { IpAddr::V6(any_v6()) } }
fn ip_in(f: &IpFilter, ip: &IpAddr) -> bool {
    match ip {
        IpAddr::V4(a) => { let mut i = 0; while i < f.ipv4_addresses.len() { if f.ipv4_addresses[i] == *a { return true; } i += 1; } false }
        IpAddr::V6(a) => { let mut i = 0; while i < f.ipv6_addresses.len() { if f.ipv6_addresses[i] == *a { return true; } i += 1; } false }
    }
}
#[kani::proof]
#[kani::unwind(20)]
fn c14_ip_matches() {
    let v4 = match kani::any::<u8>() % 3 { 0 => Vec::new(), 1 => vec![any_v4()], _ => vec![any_v4(), any_v4()] };
    let v6 = if kani::any() { Vec::new() } else { vec![any_v6()] };
    let f = IpFilter { ipv4_addresses: v4, ipv6_addresses: v6, check_source: kani::any(), check_destination: kani::any() };
    let (s, d) = (any_ip(), any_ip());
    let expect = (f.check_source && ip_in(&f, &s)) || (f.check_destination && ip_in(&f, &d));
    assert!(f.matches(&s, &d) == expect);
}
fn v4_in(net: &Ipv4Network, a: Ipv4Addr) -> bool {
    let p = net.prefix() as u32;
    if p == 0 { true } else { (u32::from(a) ^ u32::from(net.ip())) >> (32 - p) == 0 }
}
fn v6_in(net: &Ipv6Network, a: Ipv6Addr) -> bool {
    let p = net.prefix() as u32;
    if p == 0 { true } else { (u128::from(a) ^ u128::from(net.ip())) >> (128 - p) == 0 }
}
#[kani::proof]
#[kani::unwind(20)]
fn c14_subnet_single_v4() {
    // one IPv4 block, every prefix length 0..32, every address pair, every side setting
    let p4: u8 = kani::any(); kani::assume(p4 <= 32);
    let net = Ipv4Network::new(any_v4(), p4).unwrap();
    let f = SubnetFilter { ipv4_subnets: vec![net], ipv6_subnets: Vec::new(), check_source: kani::any(), check_destination: kani::any() };
    let (s, d) = (any_v4(), any_v4());
    let expect = (f.check_source && v4_in(&net, s)) || (f.check_destination && v4_in(&net, d));
    assert!(f.matches(&IpAddr::V4(s), &IpAddr::V4(d)) == expect);
}
#[kani::proof]
#[kani::unwind(20)]
fn c14_subnet_single_v6() {
    let p6: u8 = kani::any(); kani::assume(p6 <= 128);
    let net = Ipv6Network::new(any_v6(), p6).unwrap();
    let f = SubnetFilter { ipv4_subnets: Vec::new(), ipv6_subnets: vec![net], check_source: kani::any(), check_destination: kani::any() };
    let (s, d) = (any_v6(), any_v6());
    let expect = (f.check_source && v6_in(&net, s)) || (f.check_destination && v6_in(&net, d));
    assert!(f.matches(&IpAddr::V6(s), &IpAddr::V6(d)) == expect);
}
// Composition is checked for ARBITRARY sub-filter answers: the three `matches` functions are
// replaced (kani::stub) by functions of their arguments that the harness can steer to any of the
// 2^3 answer combinations; their own semantics are the obligations above.
fn stub_port(_f: &PortFilter, sp: u16, _dp: u16) -> bool { sp & 1 == 1 }
fn stub_ip(_f: &IpFilter, s: &IpAddr, _d: &IpAddr) -> bool { matches!(s, IpAddr::V4(_)) }
fn stub_subnet(_f: &SubnetFilter, _s: &IpAddr, d: &IpAddr) -> bool { matches!(d, IpAddr::V4(_)) }
#[kani::proof]
#[kani::unwind(4)]
#[kani::stub(PortFilter::matches, stub_port)]
#[kani::stub(IpFilter::matches, stub_ip)]
#[kani::stub(SubnetFilter::matches, stub_subnet)]
fn c14_compose() {
    let (s, d) = (any_ip(), any_ip());
    let (sp, dp): (u16, u16) = (kani::any(), kani::any());
    let (hp, hi, hs): (bool, bool, bool) = (kani::any(), kani::any(), kani::any());
    let mode = if kani::any() { FilterMode::Allow } else { FilterMode::Deny };
    let cfg = FilterConfig {
        port_filter: if hp { Some(PortFilter::new()) } else { None },
        ip_filter: if hi { Some(IpFilter::new()) } else { None },
        subnet_filter: if hs { Some(SubnetFilter::new()) } else { None },
        mode,
    };
    let (rp, ri, rs) = (sp & 1 == 1, matches!(s, IpAddr::V4(_)), matches!(d, IpAddr::V4(_)));
    let all = (!hp || rp) && (!hi || ri) && (!hs || rs);
    let expect = if !hp && !hi && !hs { true } else if mode == FilterMode::Allow { all } else { !all };
    assert!(cfg.should_process(&s, &d, sp, dp) == expect);
}
#[kani::proof]
#[kani::unwind(4)]
fn c14_compose_canary() {
    let pf = PortFilter { source_ports: Vec::new(), destination_ports: vec![kani::any()], source_ranges: Vec::new(), destination_ranges: Vec::new(), match_any: false };
    let cfg = FilterConfig { port_filter: Some(pf), ip_filter: None, subnet_filter: None, mode: FilterMode::Deny };
    let a = IpAddr::V4(any_v4());
    assert!(cfg.should_process(&a, &a, kani::any(), kani::any()));
}
