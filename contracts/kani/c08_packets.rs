// C08 at packet level (bounded), appended to huginn-net-tls/src/process.rs: every non-empty segment of
// a tracked flow is handed to that flow's reader whatever its size; a flow is admitted only on a TLS
// handshake record header.  The reader itself (proved in units c08_reader / c11_reader) is replaced by
// a counting stand-in so that the obligation is about process_tcp_packet alone.
use super::*;
use pnet::packet::tcp::TcpPacket;
use std::net::Ipv4Addr;
use std::sync::atomic::{AtomicUsize, Ordering};

static FED: AtomicUsize = AtomicUsize::new(0);
fn stub_add(_r: &mut TlsClientHelloReader, data: &[u8]) -> Result<Option<crate::tls::Signature>, HuginnNetTlsError> {
    FED.fetch_add(data.len(), Ordering::SeqCst);
    Ok(None)
}
fn seg(buf: &mut [u8; 28], payload: &[u8]) -> usize {
    buf[0] = 0x9c; buf[1] = 0x40; buf[2] = 0x01; buf[3] = 0xbb; // 40000 -> 443
    buf[12] = 0x50;
    let mut i = 0;
    while i < payload.len() { buf[20 + i] = payload[i]; i += 1; }
    20 + payload.len()
}
#[kani::proof]
#[kani::unwind(12)]
#[kani::stub(TlsClientHelloReader::add_bytes, stub_add)]
fn c08_continuation_segment_reaches_reader() {
    let mut flows: TtlCache<FlowKey, TlsClientHelloReader> = TtlCache::new(4);
    let (a, b) = (IpAddr::V4(Ipv4Addr::new(10, 0, 0, 1)), IpAddr::V4(Ipv4Addr::new(10, 0, 0, 2)));
    let mut b1 = [0u8; 28];
    let l1 = seg(&mut b1, &[0x16, 0x03, 0x01, 0x00, 50]);
    let r1 = process_tcp_packet(TcpPacket::new(&b1[..l1]).unwrap(), a, b, &mut flows);
    assert!(matches!(r1, Ok(None)));
    assert!(FED.load(Ordering::SeqCst) == 5);
    // a short continuation segment (size fixed: a symbolic size did not terminate in CBMC)
    let n: usize = 3;
    let data: [u8; 8] = kani::any();
    let mut b2 = [0u8; 28];
    let l2 = seg(&mut b2, &data[..n]);
    let r2 = process_tcp_packet(TcpPacket::new(&b2[..l2]).unwrap(), a, b, &mut flows);
    assert!(matches!(r2, Ok(None)));
    assert!(FED.load(Ordering::SeqCst) == 5 + n);
}
#[kani::proof]
#[kani::unwind(12)]
#[kani::stub(TlsClientHelloReader::add_bytes, stub_add)]
fn c08_non_tls_first_segment_not_tracked() {
    let mut flows: TtlCache<FlowKey, TlsClientHelloReader> = TtlCache::new(4);
    let (a, b) = (IpAddr::V4(Ipv4Addr::new(10, 0, 0, 1)), IpAddr::V4(Ipv4Addr::new(10, 0, 0, 2)));
    let data: [u8; 6] = kani::any();
    let admissible = data[0] == 0x16 && data[1] == 0x03 && data[2] <= 0x04;
    let mut b1 = [0u8; 28];
    let l1 = seg(&mut b1, &data);
    let r1 = process_tcp_packet(TcpPacket::new(&b1[..l1]).unwrap(), a, b, &mut flows);
    assert!(matches!(r1, Ok(None)));
    let key: FlowKey = (a, b, 40000, 443);
    assert!(flows.contains_key(&key) == admissible);
    assert!(FED.load(Ordering::SeqCst) == if admissible { 6 } else { 0 });
}
