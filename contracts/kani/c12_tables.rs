// Harnesses for C12 (appended to huginn-net-db/src/tcp.rs in the scratch copy).
// Oracles are written from the property statement / p0f field semantics, not from the code.
use super::*;
use crate::db_matching_trait::MatchQuality;
use crate::http::HttpMatchQuality;

fn any_ttl() -> Ttl {
    let a: u8 = kani::any();
    let b: u8 = kani::any();
    match kani::any::<u8>() % 4 {
        0 => Ttl::Value(a),
        1 => Ttl::Distance(a, b),
        2 => Ttl::Guess(a),
        _ => Ttl::Bad(a),
    }
}
fn ttl_form(t: &Ttl) -> u8 {
    match t { Ttl::Value(_) => 0, Ttl::Distance(..) => 1, Ttl::Guess(_) => 2, Ttl::Bad(_) => 3 }
}
/// the initial TTL a form stands for
fn ttl_initial(t: &Ttl) -> u16 {
    match t {
        Ttl::Value(a) | Ttl::Guess(a) | Ttl::Bad(a) => *a as u16,
        Ttl::Distance(a, d) => {
            let s = *a as u16 + *d as u16;
            if s > 255 { 255 } else { s }
        }
    }
}
/// observation form x signature form pairs that the signature language can compare
fn ttl_comparable(obs: &Ttl, sig: &Ttl) -> bool {
    let (o, s) = (ttl_form(obs), ttl_form(sig));
    o == s || (s == 0 && (o == 1 || o == 2)) || (o == 0 && (s == 1 || s == 2))
}
fn ttl_oracle(obs: &Ttl, sig: &Ttl) -> Option<u32> {
    if !ttl_comparable(obs, sig) {
        return None;
    }
    let same = if ttl_form(obs) == ttl_form(sig) { obs == sig } else { ttl_initial(obs) == ttl_initial(sig) };
    Some(if same { 0 } else { 2 })
}

#[kani::proof]
fn c12_ttl_table() {
    let obs = any_ttl();
    let sig = any_ttl();
    assert!(obs.distance_ttl(&sig) == ttl_oracle(&obs, &sig));
}
#[kani::proof]
fn c12_ttl_reflexive_zero() {
    let t = any_ttl();
    assert!(t.distance_ttl(&t) == Some(0));
}
#[kani::proof]
fn c12_ttl_hops_zero() {
    // observed TTL = initial - hops, reported as Distance(observed, hops), against Value(initial)
    let initial: u8 = kani::any();
    let hops: u8 = kani::any();
    kani::assume(hops <= initial);
    let obs = Ttl::Distance(initial - hops, hops);
    assert!(obs.distance_ttl(&Ttl::Value(initial)) == Some(0));
}
#[kani::proof]
fn c12_ttl_canary() {
    // must FAIL: if it verified the harness would not be exploring unequal pairs
    let obs = any_ttl();
    let sig = any_ttl();
    assert!(obs.distance_ttl(&sig) != Some(2));
}

fn any_win() -> WindowSize {
    let a: u8 = kani::any();
    let w: u16 = kani::any();
    match kani::any::<u8>() % 5 {
        0 => WindowSize::Mss(a),
        1 => WindowSize::Mtu(a),
        2 => WindowSize::Value(w),
        3 => WindowSize::Mod(w),
        _ => WindowSize::Any,
    }
}
fn win_oracle(obs: &WindowSize, sig: &WindowSize, mss: Option<u16>) -> Option<u32> {
    use WindowSize::*;
    match (obs, sig) {
        (_, Any) => Some(0),
        (Mss(a), Mss(b)) | (Mtu(a), Mtu(b)) => Some(if a == b { 0 } else { 2 }),
        (Value(a), Value(b)) | (Mod(a), Mod(b)) => Some(if a == b { 0 } else { 2 }),
        // raw observed window against an MSS-multiple signature: comparable through the observed MSS
        (Value(a), Mss(b)) => match mss {
            Some(m) if m != 0 && a / m == *b as u16 => Some(0),
            _ => Some(2),
        },
        _ => None,
    }
}
#[kani::proof]
fn c12_win_table() {
    let obs = any_win();
    let sig = any_win();
    let mss: Option<u16> = kani::any();
    assert!(obs.distance_window_size(&sig, mss) == win_oracle(&obs, &sig, mss));
}
#[kani::proof]
fn c12_win_reflexive_zero() {
    let w = any_win();
    let mss: Option<u16> = kani::any();
    // every form instantiates itself (a raw value against Mss form is a different pair)
    assert!(w.distance_window_size(&w, mss) == Some(0));
}
#[kani::proof]
fn c12_win_canary() {
    let obs = any_win();
    let sig = any_win();
    assert!(obs.distance_window_size(&sig, kani::any()).is_some());
}

fn any_ipv() -> IpVersion {
    match kani::any::<u8>() % 3 { 0 => IpVersion::V4, 1 => IpVersion::V6, _ => IpVersion::Any }
}
fn any_pclass() -> PayloadSize {
    match kani::any::<u8>() % 3 { 0 => PayloadSize::Zero, 1 => PayloadSize::NonZero, _ => PayloadSize::Any }
}
#[kani::proof]
fn c12_ipversion_decisive() {
    let obs = any_ipv();
    let sig = any_ipv();
    let d = obs.distance_ip_version(&sig);
    // wildcard or equal concrete version: exact (0); anything else is never accepted
    let accept = sig == IpVersion::Any || (obs == sig && obs != IpVersion::Any);
    assert!(d == if accept { Some(0) } else { None });
}
#[kani::proof]
fn c12_pclass_decisive() {
    let obs = any_pclass();
    let sig = any_pclass();
    let d = obs.distance_payload_size(&sig);
    let accept = sig == PayloadSize::Any || obs == sig;
    assert!(d == if accept { Some(0) } else { None });
}

#[kani::proof]
fn c12_score_tcp_range_and_one() {
    let d: u32 = kani::any();
    let s = TcpMatchQuality::distance_to_score(d);
    assert!(s >= 0.05 && s <= 1.0);
    assert!((s == 1.0) == (d == 0));
}
#[kani::proof]
fn c12_score_tcp_monotone() {
    let a: u32 = kani::any();
    let b: u32 = kani::any();
    kani::assume(a <= b);
    assert!(TcpMatchQuality::distance_to_score(a) >= TcpMatchQuality::distance_to_score(b));
}
#[kani::proof]
fn c12_score_http_range_and_one() {
    let d: u32 = kani::any();
    let s = HttpMatchQuality::distance_to_score(d);
    assert!(s >= 0.05 && s <= 1.0);
    assert!((s == 1.0) == (d == 0));
}
#[kani::proof]
fn c12_score_http_monotone() {
    let a: u32 = kani::any();
    let b: u32 = kani::any();
    kani::assume(a <= b);
    assert!(HttpMatchQuality::distance_to_score(a) >= HttpMatchQuality::distance_to_score(b));
}
#[kani::proof]
fn c12_score_canary() {
    let d: u32 = kani::any();
    assert!(TcpMatchQuality::distance_to_score(d) > 0.05);
}
#[kani::proof]
fn c12_as_score_tables() {
    assert!(TcpMatchQuality::High.as_score() == 0 && TcpMatchQuality::Medium.as_score() == 1 && TcpMatchQuality::Low.as_score() == 2);
    assert!(HttpMatchQuality::High.as_score() == 0 && HttpMatchQuality::Medium.as_score() == 1
        && HttpMatchQuality::Low.as_score() == 2 && HttpMatchQuality::Bad.as_score() == 3);
}

// ---- decisive list fields: quirks and option layout must be equal as lists (same elements, same order, same length)
use crate::observable_signals::TcpObservation;
fn any_quirk() -> Quirk {
    match kani::any::<u8>() % 5 { 0 => Quirk::Df, 1 => Quirk::NonZeroID, 2 => Quirk::Ecn, 3 => Quirk::FlowID, _ => Quirk::Push }
}
fn any_opt() -> TcpOption {
    match kani::any::<u8>() % 5 { 0 => TcpOption::Mss, 1 => TcpOption::Nop, 2 => TcpOption::Ws, 3 => TcpOption::Eol(kani::any()), _ => TcpOption::Unknown(kani::any()) }
}
fn quirk_list(n: usize) -> Vec<Quirk> { let mut v = Vec::new(); let mut i = 0; while i < n { v.push(any_quirk()); i += 1; } v }
fn opt_list(n: usize) -> Vec<TcpOption> { let mut v = Vec::new(); let mut i = 0; while i < n { v.push(any_opt()); i += 1; } v }
fn lists_equal<T: PartialEq>(a: &Vec<T>, b: &Vec<T>) -> bool {
    if a.len() != b.len() { return false; }
    let mut i = 0;
    while i < a.len() { if a[i] != b[i] { return false; } i += 1; }
    true
}
fn obs_with(quirks: Vec<Quirk>, olayout: Vec<TcpOption>) -> TcpObservation {
    TcpObservation { version: IpVersion::V4, ittl: Ttl::Value(64), olen: 0, mss: None, wsize: WindowSize::Value(1), wscale: None, olayout, quirks, pclass: PayloadSize::Zero }
}
fn sig_with(quirks: Vec<Quirk>, olayout: Vec<TcpOption>) -> Signature {
    Signature { version: IpVersion::V4, ittl: Ttl::Value(64), olen: 0, mss: None, wsize: WindowSize::Value(1), wscale: None, olayout, quirks, pclass: PayloadSize::Zero }
}
#[kani::proof]
#[kani::unwind(5)]
fn c12_quirks_decisive() {
    let (n1, n2): (usize, usize) = (kani::any(), kani::any());
    kani::assume(n1 <= 2 && n2 <= 2);
    let (a, b) = (quirk_list(n1), quirk_list(n2));
    let eq = lists_equal(&a, &b);
    let r = obs_with(a, Vec::new()).distance_quirks(&sig_with(b, Vec::new()));
    assert!(r == if eq { Some(0) } else { None });
}
#[kani::proof]
#[kani::unwind(5)]
fn c12_olayout_decisive() {
    let (n1, n2): (usize, usize) = (kani::any(), kani::any());
    kani::assume(n1 <= 2 && n2 <= 2);
    let (a, b) = (opt_list(n1), opt_list(n2));
    let eq = lists_equal(&a, &b);
    let r = obs_with(Vec::new(), a).distance_olayout(&sig_with(Vec::new(), b));
    assert!(r == if eq { Some(0) } else { None });
}

// ---- fields that are never decisive: whatever the two values are, the component accepts (with a penalty at most);
// in particular a signature that pins a window scale is still reachable by a packet without that option
#[kani::proof]
fn c12_nondecisive_fields_always_accept() {
    let mut o = obs_with(Vec::new(), Vec::new());
    let mut s = sig_with(Vec::new(), Vec::new());
    o.wscale = kani::any(); s.wscale = kani::any();
    o.mss = kani::any(); s.mss = kani::any();
    o.olen = kani::any(); s.olen = kani::any();
    let (w, m, l) = (o.distance_wscale(&s), o.distance_mss(&s), o.distance_olen(&s));
    assert!(w.is_some() && m.is_some() && l.is_some());
    // exact penalties: 0 when the signature leaves the field open or the values agree
    assert!(w == Some(if s.wscale.is_none() || o.wscale == s.wscale { 0 } else { 1 }));
    assert!(m == Some(if s.mss.is_none() || o.mss == s.mss { 0 } else { 2 }));
    assert!(l == Some(if o.olen == s.olen { 0 } else { 2 }));
}
