// Harnesses for C19, appended to huginn-net-tcp/src/uptime.rs (private helpers are reachable here).
use super::*;
use std::net::Ipv4Addr;

fn stub_format(_args: core::fmt::Arguments<'_>) -> String {
    String::new()
}

fn ts(v: u32, t: u64) -> TcpTimestamp {
    TcpTimestamp { ts_val: v, recv_time_ms: t, is_bad_frequency: false }
}

/// documented acceptance rule: interval in [25 ms, 600 000 ms]; at least 5 ticks of forward (or,
/// read as wrapped-backward, inverted) movement; rate in [1, 1500] Hz.  Split so that the oracle
/// side needs no floating point: rate bounds are compared in exact integers.
fn any_pair() -> (u32, u64, u32, u64, u64, u32, bool) {
    let (cv, ct, rv, rt): (u32, u64, u32, u64) = (kani::any(), kani::any(), kani::any(), kani::any());
    kani::assume(ct < (1u64 << 50) && rt < (1u64 << 50));
    let ms = ct.saturating_sub(rt);
    let d = cv.wrapping_sub(rv);
    let backward = d >= 0x8000_0000;
    let eff = if backward { !d } else { d };
    (cv, ct, rv, rt, ms, eff, backward)
}
#[kani::proof]
#[kani::stub(alloc::fmt::format, stub_format)]
fn c19_frequency_guards() {
    let (cv, ct, rv, rt, ms, eff, _b) = any_pair();
    kani::assume(ms < 25 || ms > 600_000 || eff < 5);
    assert!(calculate_frequency_p0f_style(&ts(cv, ct), &ts(rv, rt)).is_err());
}
#[kani::proof]
#[kani::stub(alloc::fmt::format, stub_format)]
fn c19_frequency_accepts_steady() {
    // a steady clock inside all bounds is accepted, and the reported rate lies in [1, 1500]
    let (cv, ct, rv, rt, ms, eff, backward) = any_pair();
    kani::assume(ms >= 25 && ms <= 600_000 && eff >= 5 && !backward);
    let num = eff as u64 * 1000;
    kani::assume(num >= ms && num <= 1500 * ms);
    match calculate_frequency_p0f_style(&ts(cv, ct), &ts(rv, rt)) {
        Ok(f) => assert!(f >= 1.0 && f <= 1500.0),
        Err(_) => assert!(false),
    }
}
/// rate bounds with the interval fixed at exactly one second (so the rate equals the tick count and the
/// f64 division has a constant divisor): outside [1,1500] Hz nothing is reported, inside the rate is
#[kani::proof]
#[kani::stub(alloc::fmt::format, stub_format)]
fn c19_frequency_rate_bounds_1s() {
    let rv: u32 = kani::any();
    let ticks: u32 = kani::any();
    kani::assume(ticks < 0x8000_0000); // forward movement
    let rt: u64 = kani::any();
    kani::assume(rt < (1u64 << 40));
    let r = calculate_frequency_p0f_style(&ts(rv.wrapping_add(ticks), rt + 1000), &ts(rv, rt));
    if ticks < 5 || ticks > 1500 {
        assert!(r.is_err());
    } else {
        assert!(r == Ok(ticks as f64));
    }
}
/// the same at the slowest admissible clock: interval 10 s, rate = ticks / 10
#[kani::proof]
#[kani::stub(alloc::fmt::format, stub_format)]
fn c19_frequency_rate_bounds_10s() {
    let ticks: u32 = kani::any();
    kani::assume(ticks < 0x8000_0000);
    let r = calculate_frequency_p0f_style(&ts(ticks, 20_000), &ts(0, 10_000));
    // 1 Hz <= ticks/10 <= 1500 Hz
    assert!(r.is_ok() == (ticks >= 10 && ticks <= 15_000));
}
#[kani::proof]
#[kani::stub(alloc::fmt::format, stub_format)]
fn c19_frequency_canary() {
    let (cv, ct, rv, rt): (u32, u64, u32, u64) = (kani::any(), kani::any(), kani::any(), kani::any());
    kani::assume(ct < (1u64 << 50) && rt < (1u64 << 50));
    assert!(calculate_frequency_p0f_style(&ts(cv, ct), &ts(rv, rt)).is_err());
}

/// p0f's rounding grid: largest multiple of the step not above x + bias, per range
#[kani::proof]
fn c19_round_grid() {
    let f: f64 = kani::any();
    kani::assume(f.is_finite() && f >= 0.0 && f <= 1500.0);
    let x = f as u32;
    let r = round_frequency_p0f_style(f);
    if x == 0 {
        assert!(r == 1);
    } else if x <= 10 {
        assert!(r == x);
    } else {
        let (bias, step) = if x <= 50 { (3, 5) } else if x <= 100 { (7, 10) } else if x <= 500 { (33, 50) } else { (67, 100) };
        assert!(r % step == 0 && r <= x + bias && x + bias < r + step);
    }
}
/// snap to a multiple of the base when within the tolerance of it
#[kani::proof]
fn c19_guess_frequency() {
    let raw: f64 = kani::any();
    kani::assume(raw.is_finite() && raw >= 1.0 && raw <= 1500.0);
    let base: f64 = if kani::any() { 1000.0 } else { 100.0 };
    let g = guess_frequency(raw, base, 0.10);
    assert!(g.is_none() || g == Some(base));
    // exactly on a multiple -> snapped
    let k: u8 = kani::any();
    kani::assume(k >= 1 && (k as f64) * base <= 1500.0);
    assert!(guess_frequency((k as f64) * base, base, 0.10) == Some(base));
}
#[kani::proof]
fn c19_guess_frequency_far() {
    // more than 10 % away from every multiple of the base -> not snapped (here: below 0.9 * base)
    let raw: f64 = kani::any();
    let base: f64 = if kani::any() { 1000.0 } else { 100.0 };
    kani::assume(raw.is_finite() && raw >= 1.0 && raw < 0.45 * base);
    assert!(guess_frequency(raw, base, 0.10).is_none());
}

// ---------------------------------------------------------------- tracker state (bounded: 3 calls)
fn conn() -> Connection {
    Connection { src_ip: IpAddr::V4(Ipv4Addr::new(10, 0, 0, 1)), src_port: 40000, dst_ip: IpAddr::V4(Ipv4Addr::new(10, 0, 0, 2)), dst_port: 80 }
}
fn stub_now() -> Option<u64> {
    let t: u64 = kani::any();
    kani::assume(t < (1u64 << 40));
    Some(t)
}
fn stub_uptime(_ts: u32, f: f64) -> ObservableUptime {
    ObservableUptime { days: 0, hours: 0, min: 0, up_mod_days: 0, freq: f }
}
#[kani::proof]
#[kani::unwind(6)]
#[kani::stub(alloc::fmt::format, stub_format)]
#[kani::stub(get_unix_time_ms, stub_now)]
#[kani::stub(calculate_uptime_from_frequency, stub_uptime)]
fn c19_tracker_first_then_second() {
    let mut cache: TtlCache<ConnectionKey, TcpTimestamp> = TtlCache::new(4);
    let c = conn();
    let from_client: bool = kani::any();
    // first timestamped segment of an endpoint: stored, nothing reported
    let r1 = check_ts_tcp(&mut cache, &c, from_client, kani::any());
    assert!(r1.0.is_none() && r1.1.is_none());
    // second: reported only on the side it belongs to
    let r2 = check_ts_tcp(&mut cache, &c, from_client, kani::any());
    if from_client { assert!(r2.1.is_none()); } else { assert!(r2.0.is_none()); }
    if r2.0.is_none() && r2.1.is_none() {
        // withheld: the endpoint is not re-evaluated while its entry lives
        let r3 = check_ts_tcp(&mut cache, &c, from_client, kani::any());
        assert!(r3.0.is_none() && r3.1.is_none());
    }
}
#[kani::proof]
#[kani::unwind(6)]
#[kani::stub(alloc::fmt::format, stub_format)]
#[kani::stub(get_unix_time_ms, stub_now)]
fn c19_tracker_directions_separate() {
    // a client-side reference never serves as reference for the server side of the connection
    let mut cache: TtlCache<ConnectionKey, TcpTimestamp> = TtlCache::new(4);
    let c = conn();
    let _ = check_ts_tcp(&mut cache, &c, true, kani::any());
    let r = check_ts_tcp(&mut cache, &c, false, kani::any());
    assert!(r.0.is_none() && r.1.is_none());
}
#[kani::proof]
#[kani::unwind(6)]
#[kani::stub(alloc::fmt::format, stub_format)]
#[kani::stub(get_unix_time_ms, stub_now)]
fn c19_tracker_reverse_direction_separate() {
    // the two directions of a connection are tracked separately also when the labelling rule gives both
    // endpoints the same label (non-handshake segments between two high ports): the first timestamped
    // segment of B -> A must not be measured against A -> B's reference
    let mut cache: TtlCache<ConnectionKey, TcpTimestamp> = TtlCache::new(4);
    let c = conn();
    let rev = Connection { src_ip: c.dst_ip, src_port: c.dst_port, dst_ip: c.src_ip, dst_port: c.src_port };
    let label: bool = kani::any();
    let _ = check_ts_tcp(&mut cache, &c, label, kani::any());
    let r = check_ts_tcp(&mut cache, &rev, label, kani::any());
    assert!(r.0.is_none() && r.1.is_none());
}

// ---------------------------------------------------------------- labelling rule
use crate::tcp_process::is_packet_from_client;
#[kani::proof]
fn c19_direction_rule() {
    let f: u8 = kani::any();
    let sp: u16 = kani::any();
    let dp: u16 = kani::any();
    let syn = f & 0x02 != 0;
    let ack = f & 0x10 != 0;
    let expect = if syn && !ack { true } else if syn && ack { false } else { sp > 1024 && dp <= 1024 };
    assert!(is_packet_from_client(f, sp, dp) == expect);
}

