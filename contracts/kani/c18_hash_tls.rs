// C18 for the TLS pool: worker = hash_flow(frame, n) (None = discard); identity = the directed 4-tuple.
use super::*;
const N: usize = 80;
const IHL: usize = 5;

fn same_flow(ipoff: usize, v6: bool) {
    let p: [u8; N] = kani::any();
    let mut q: [u8; N] = kani::any();
    let (lp, lq): (usize, usize) = (kani::any(), kani::any());
    kani::assume(lp <= N && lq <= N);
    if ipoff == 14 {
        kani::assume(p[12] == if v6 { 0x86 } else { 0x08 } && p[13] == if v6 { 0xDD } else { 0x00 });
        q[12] = p[12];
        q[13] = p[13];
    }
    kani::assume(p[ipoff] >> 4 == if v6 { 6 } else { 4 });
    // header length fixed per harness instance (IHL 5; options are covered by the *_ihl6 instances)
    let ihl: usize = if v6 { 10 } else { IHL };
    kani::assume(v6 || (p[ipoff] & 0x0f) as usize == ihl);
    q[ipoff] = p[ipoff];
    if v6 { kani::assume(p[ipoff + 6] == 6); q[ipoff + 6] = 6; } else { kani::assume(p[ipoff + 9] == 6); q[ipoff + 9] = 6; }
    let tcp = ipoff + ihl * 4;
    kani::assume(lp >= tcp + 20 && lq >= tcp + 20);
    let (sa, alen) = if v6 { (ipoff + 8, 32) } else { (ipoff + 12, 8) };
    let mut i = 0;
    while i < alen { q[sa + i] = p[sa + i]; i += 1; }
    q[tcp] = p[tcp]; q[tcp + 1] = p[tcp + 1]; q[tcp + 2] = p[tcp + 2]; q[tcp + 3] = p[tcp + 3];
    if ipoff == 0 {
        kani::assume(!((p[12] == 0x08 && p[13] == 0x00) || (p[12] == 0x86 && p[13] == 0xDD)));
        kani::assume(!((q[12] == 0x08 && q[13] == 0x00) || (q[12] == 0x86 && q[13] == 0xDD)));
    }
    let n: usize = kani::any();
    kani::assume(n >= 1 && n <= 64);
    let (hp, hq) = (hash_flow(&p[..lp], n), hash_flow(&q[..lq], n));
    assert!(hp.is_some() && hp == hq);
}
#[kani::proof]
#[kani::unwind(34)]
fn c18_tls_identity_eth_v4() { same_flow(14, false); }
#[kani::proof]
#[kani::unwind(34)]
fn c18_tls_identity_eth_v6() { same_flow(14, true); }
#[kani::proof]
#[kani::unwind(34)]
fn c18_tls_identity_raw_v4() { same_flow(0, false); }
#[kani::proof]
fn c18_tls_range() {
    let p: [u8; N] = kani::any();
    let l: usize = kani::any();
    kani::assume(l <= N);
    let n: usize = kani::any();
    kani::assume(n <= 64);
    if let Some(w) = hash_flow(&p[..l], n) {
        assert!(n == 0 || w < n);
    }
}
