// C15 for the unified analyzer: it filters with the TCP crate's raw filter but decodes with its own
// copy of the packet parser: whenever the unified parser finds an IP packet in a frame, the TCP crate's
// parser must find the same one (then the TCP crate's decoder agreement carries over).  The converse is not
// needed: a frame the unified analyzer does not decode yields no result, whatever the filter extracts.
// Appended to huginn-net/src/packet_parser.rs.
use super::*;
use pnet::packet::Packet;

#[kani::proof]
fn c15_unified_parser_agrees_with_tcp_parser() {
    // unified selects a view  ==>  the TCP crate's parser selects the very same bytes
    let buf: [u8; 96] = kani::any();
    let len: usize = kani::any();
    kani::assume(len <= 96);
    let f = &buf[..len];
    match (parse_packet(f), huginn_net_tcp::packet_parser::parse_packet(f)) {
        (IpPacket::Ipv4(a), huginn_net_tcp::packet_parser::IpPacket::Ipv4(b)) => {
            assert!(a.len() == b.packet().len() && a.as_ptr() == b.packet().as_ptr());
        }
        (IpPacket::Ipv6(a), huginn_net_tcp::packet_parser::IpPacket::Ipv6(b)) => {
            assert!(a.len() == b.packet().len() && a.as_ptr() == b.packet().as_ptr());
        }
        (IpPacket::None, _) => {}
        _ => assert!(false),
    }
}
#[kani::proof]
fn c15_unified_canary() {
    // must FAIL
    let buf: [u8; 96] = kani::any();
    let len: usize = kani::any();
    kani::assume(len <= 96);
    assert!(matches!(parse_packet(&buf[..len]), IpPacket::None));
}
