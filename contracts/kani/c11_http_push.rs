// C11 (HTTP side), bounded cross-check of the Verus unit c11_http_flow on the real functions, appended to
// huginn-net-http/src/http_process.rs: whatever is stored and whatever arrives, a direction never holds
// more than MAX_BUFFERED_BYTES_PER_DIRECTION bytes after push_within_limit.  Decides changes that leave the
// Verus subset (closures, iterator adapters).
use super::*;

fn total(v: &Vec<TcpData>) -> usize {
    let mut t = 0usize;
    let mut i = 0;
    while i < v.len() { t += v[i].data.len(); i += 1; }
    t
}
fn seg(seq: u32, len: usize) -> TcpData {
    TcpData { sequence: seq, data: vec![0u8; len] }
}
#[kani::proof]
#[kani::unwind(5)]
fn c11_push_within_limit_bound() {
    // two stored segments of arbitrary sizes within the limit, arbitrary sequence numbers (equal ones included)
    let (l0, l1, l2): (usize, usize, usize) = (kani::any(), kani::any(), kani::any());
    kani::assume(l0 <= 65536 && l1 <= 65536 && l0 + l1 <= 65536 && l2 <= 65536 + 8);
    let mut segments = vec![seg(kani::any(), l0), seg(kani::any(), l1)];
    let before = total(&segments);
    let r = push_within_limit(&mut segments, seg(kani::any(), l2));
    let after = total(&segments);
    assert!(after <= MAX_BUFFERED_BYTES_PER_DIRECTION);
    assert!(r == (before + l2 <= MAX_BUFFERED_BYTES_PER_DIRECTION));
    if r { assert!(after == before + l2 && segments.len() == 3); } else { assert!(segments.len() == 0); }
}
#[kani::proof]
#[kani::unwind(5)]
fn c11_push_canary() {
    // must FAIL: segments that fit are stored
    let mut segments = vec![seg(1, 3)];
    let r = push_within_limit(&mut segments, seg(4, 2));
    assert!(!r);
}
