// Bounded cross-checks for the HTTP/2 frame splitter (unbounded proof: Verus unit c16_frames).
// They keep deciding small instances when a structural rewrite leaves the Verus subset (exit 2 there).
// Appended to huginn-net-http/src/http2_parser.rs.
use super::*;

const N: usize = 30;

/// RFC 7540 4.1 / 4.2: complete frames at the start of d, stopping at the first incomplete frame or
/// the first frame whose PAYLOAD length exceeds the limit
#[kani::proof]
#[kani::unwind(8)]
fn c16_parse_frames_bounded() {
    let buf: [u8; N] = kani::any();
    let len: usize = kani::any();
    kani::assume(len <= N);
    let max: u32 = kani::any();
    kani::assume(max <= 24);
    let parser = Http2Parser::with_config(Http2Config { max_frame_size: max, max_streams: 100, enable_hpack: false, strict_parsing: false });
    let frames = parser.parse_frames(&buf[..len]).unwrap();
    // oracle walk
    let mut pos = 0usize;
    let mut n = 0usize;
    while len - pos >= 9 {
        let l = ((buf[pos] as usize) << 16) | ((buf[pos + 1] as usize) << 8) | buf[pos + 2] as usize;
        if l > max as usize || len - pos < 9 + l {
            break;
        }
        assert!(n < frames.len());
        let f = &frames[n];
        assert!(f.length as usize == l && f.payload.len() == l && f.flags == buf[pos + 4]);
        assert!(f.stream_id == (u32::from_be_bytes([buf[pos + 5], buf[pos + 6], buf[pos + 7], buf[pos + 8]]) & 0x7fff_ffff));
        assert!(f.frame_type == Http2FrameType::from(buf[pos + 3]));
        if l > 0 { assert!(f.payload[0] == buf[pos + 9] && f.payload[l - 1] == buf[pos + 8 + l]); }
        pos += 9 + l;
        n += 1;
    }
    assert!(frames.len() == n);
}

/// parse_frames_with_offset: the assumed contract used by the incremental-extractor proof
/// (frames of parse_frames + the bytes they occupy), checked here on small inputs
#[kani::proof]
#[kani::unwind(8)]
fn c16_frames_with_offset_bounded() {
    let buf: [u8; N] = kani::any();
    let len: usize = kani::any();
    kani::assume(len <= N);
    let max: u32 = kani::any();
    kani::assume(max <= 24);
    let parser = Http2Parser::with_config(Http2Config { max_frame_size: max, max_streams: 100, enable_hpack: false, strict_parsing: false });
    let (frames, consumed) = parser.parse_frames_with_offset(&buf[..len]).unwrap();
    let mut pos = 0usize;
    let mut n = 0usize;
    while len - pos >= 9 {
        let l = ((buf[pos] as usize) << 16) | ((buf[pos + 1] as usize) << 8) | buf[pos + 2] as usize;
        if l > max as usize || len - pos < 9 + l { break; }
        pos += 9 + l;
        n += 1;
    }
    assert!(frames.len() == n && consumed == pos);
    assert!((n > 0) == (consumed > 0));
}


/// RFC 7540 6.2: header block fragment = payload minus Pad Length octet, priority fields, padding.
/// Oracle written from the frame layout, independent of the code's control flow.
#[kani::proof]
#[kani::unwind(14)]
fn c16_fragment_bounded() {
    const P: usize = 12;
    let buf: [u8; P] = kani::any();
    let len: usize = kani::any();
    kani::assume(len <= P);
    let flags: u8 = kani::any();
    let payload = &buf[..len];
    let padded = flags & 0x08 == 0x08;
    let prio = flags & 0x20 == 0x20;
    let head = (if padded { 1 } else { 0 }) + (if prio { 5 } else { 0 });
    let r = headers_block_fragment(payload, flags);
    if len < head || (padded && (buf[0] as usize) > len - head) {
        assert!(r.is_none());
    } else {
        let pad = if padded { buf[0] as usize } else { 0 };
        let frag = r.unwrap();
        assert!(frag.len() == len - head - pad);
        let i: usize = kani::any();
        kani::assume(i < frag.len());
        assert!(frag[i] == buf[head + i]);
    }
}

/// RFC 7540 6.10: HEADERS + CONTINUATION of one stream give ONE block (fragment ++ continuation payload);
/// a frame of another stream in between contributes nothing
#[kani::proof]
#[kani::unwind(6)]
fn c16_blocks_bounded() {
    let a: [u8; 3] = kani::any();
    let b: [u8; 2] = kani::any();
    let sid: u32 = kani::any();
    let other: u32 = kani::any();
    kani::assume(other != sid);
    let hflags: u8 = kani::any();
    kani::assume(hflags & 0x28 == 0); // plain fragment: the layout is c16_fragment_bounded's business
    let mid_type: u8 = kani::any();
    let frames = [
        Http2Frame::new(0x1, hflags, sid, a.to_vec()),
        Http2Frame::new(mid_type, kani::any(), other, b.to_vec()),
        Http2Frame::new(0x9, kani::any(), sid, b.to_vec()),
    ];
    let blocks = collect_header_blocks(sid, &frames).unwrap();
    assert!(blocks.len() == 1);
    assert!(blocks[0].len() == 5);
    assert!(blocks[0][0] == a[0] && blocks[0][2] == a[2] && blocks[0][3] == b[0] && blocks[0][4] == b[1]);
}
