// Bounded cross-checks for the HTTP/2 frame splitter (unbounded proof: Verus unit c16_frames).
// They keep deciding small instances when a structural rewrite leaves the Verus subset (exit 2 there).
// Appended to huginn-net-http/src/http2_parser.rs.
use super::*;

const N: usize = 30;

/// RFC 7540 4.1 / 4.2: complete frames at the start of d, stopping at the first incomplete frame or
/// the first frame whose PAYLOAD length exceeds the limit
#[kani::proof]
#[kani::unwind(8)]
fn c16_parse_frames_bounded() {
    let buf: [u8; N] = kani::any();
    let len: usize = kani::any();
    kani::assume(len <= N);
    let max: u32 = kani::any();
    kani::assume(max <= 24);
    let parser = Http2Parser::with_config(Http2Config { max_frame_size: max, max_streams: 100, enable_hpack: false, strict_parsing: false });
    let frames = parser.parse_frames(&buf[..len]).unwrap();
    // oracle walk
    let mut pos = 0usize;
    let mut n = 0usize;
    while len - pos >= 9 {
        let l = ((buf[pos] as usize) << 16) | ((buf[pos + 1] as usize) << 8) | buf[pos + 2] as usize;
        if l > max as usize || len - pos < 9 + l {
            break;
        }
        assert!(n < frames.len());
        let f = &frames[n];
        assert!(f.length as usize == l && f.payload.len() == l && f.flags == buf[pos + 4]);
        assert!(f.stream_id == (u32::from_be_bytes([buf[pos + 5], buf[pos + 6], buf[pos + 7], buf[pos + 8]]) & 0x7fff_ffff));
        assert!(f.frame_type == Http2FrameType::from(buf[pos + 3]));
        if l > 0 { assert!(f.payload[0] == buf[pos + 9] && f.payload[l - 1] == buf[pos + 8 + l]); }
        pos += 9 + l;
        n += 1;
    }
    assert!(frames.len() == n);
}

/// parse_frames_with_offset: the assumed contract used by the incremental-extractor proof
/// (frames of parse_frames + the bytes they occupy), checked here on small inputs
#[kani::proof]
#[kani::unwind(8)]
fn c16_frames_with_offset_bounded() {
    let buf: [u8; N] = kani::any();
    let len: usize = kani::any();
    kani::assume(len <= N);
    let max: u32 = kani::any();
    kani::assume(max <= 24);
    let parser = Http2Parser::with_config(Http2Config { max_frame_size: max, max_streams: 100, enable_hpack: false, strict_parsing: false });
    let (frames, consumed) = parser.parse_frames_with_offset(&buf[..len]).unwrap();
    let mut pos = 0usize;
    let mut n = 0usize;
    while len - pos >= 9 {
        let l = ((buf[pos] as usize) << 16) | ((buf[pos + 1] as usize) << 8) | buf[pos + 2] as usize;
        if l > max as usize || len - pos < 9 + l { break; }
        pos += 9 + l;
        n += 1;
    }
    assert!(frames.len() == n && consumed == pos);
    assert!((n > 0) == (consumed > 0));
}

