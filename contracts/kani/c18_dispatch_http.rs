// C18 (second half, sequential function-level contract), appended to huginn-net-http/src/parallel.rs:
// the outcome WorkerPool::dispatch returns agrees with what it did and with the drop counter --
//   Queued  <=> the packet was handed to exactly one worker queue and the queue accepted it; drop counter unchanged
//   Dropped <=> no queue holds the packet; the drop counter went up by exactly one
// The queue (crossbeam try_send) and the flow hash are replaced by steerable stand-ins, so every
// combination of {shutting down, hash ok / no flow, queue accepts / full / disconnected} is explored.
use super::*;
use std::sync::atomic::AtomicUsize;

static SENT: AtomicUsize = AtomicUsize::new(0);
static ACCEPTED: AtomicUsize = AtomicUsize::new(0);
static QUEUE_STATE: AtomicUsize = AtomicUsize::new(0); // 0 accepts, 1 full, 2 disconnected (worker gone)
fn steer_try_send<T>(_s: &Sender<T>, msg: T) -> Result<(), crossbeam_channel::TrySendError<T>> {
    SENT.fetch_add(1, Ordering::SeqCst);
    match QUEUE_STATE.load(Ordering::SeqCst) {
        0 => {
            ACCEPTED.fetch_add(1, Ordering::SeqCst);
            core::mem::forget(msg);
            Ok(())
        }
        1 => Err(crossbeam_channel::TrySendError::Full(msg)),
        _ => Err(crossbeam_channel::TrySendError::Disconnected(msg)),
    }
}
fn steer_hash(_packet: &[u8], num_workers: usize) -> usize {
    // hash_flow's proved contract (unit c18_http): a valid worker index
    let i: usize = kani::any();
    kani::assume(i < num_workers);
    i
}
fn pool(shutdown: bool) -> WorkerPool {
    let (s0, r0) = bounded::<Vec<u8>>(1);
    let (s1, r1) = bounded::<Vec<u8>>(1);
    core::mem::forget(r0);
    core::mem::forget(r1);
    WorkerPool {
        packet_senders: Arc::new(vec![s0, s1]),
        result_sender: Arc::new(Mutex::new(None)),
        shutdown_flag: Arc::new(AtomicBool::new(shutdown)),
        dispatched_count: Arc::new(AtomicU64::new(0)),
        dropped_count: Arc::new(AtomicU64::new(0)),
        worker_dropped: vec![Arc::new(AtomicU64::new(0)), Arc::new(AtomicU64::new(0))],
        num_workers: 2,
        batch_size: 1,
        timeout_ms: 1,
    }
}
#[kani::proof]
#[kani::unwind(4)]
#[kani::stub(crossbeam_channel::Sender::try_send, steer_try_send)]
#[kani::stub(packet_hash::hash_flow, steer_hash)]
fn c18_dispatch_outcome_agrees_with_counters() {
    let q: usize = kani::any();
    kani::assume(q <= 2);
    QUEUE_STATE.store(q, Ordering::SeqCst);
    let p = pool(kani::any());
    let r = p.dispatch(vec![0u8; 4]);
    let dropped = p.dropped_count.load(Ordering::Relaxed);
    let (sent, accepted) = (SENT.load(Ordering::SeqCst), ACCEPTED.load(Ordering::SeqCst));
    assert!(sent <= 1);
    match r {
        DispatchResult::Queued => assert!(accepted == 1 && dropped == 0),
        DispatchResult::Dropped => assert!(accepted == 0 && dropped == 1),
    }
    core::mem::forget(p);
}
#[kani::proof]
#[kani::unwind(4)]
#[kani::stub(crossbeam_channel::Sender::try_send, steer_try_send)]
#[kani::stub(packet_hash::hash_flow, steer_hash)]
fn c18_dispatch_canary() {
    // must FAIL: some packets are queued
    let q: usize = kani::any();
    kani::assume(q <= 2);
    QUEUE_STATE.store(q, Ordering::SeqCst);
    let p = pool(kani::any());
    let r = p.dispatch(vec![0u8; 4]);
    assert!(r == DispatchResult::Dropped);
    core::mem::forget(p);
}
