// C17 frame selection (bounded), appended to huginn-net-http/src/akamai_extractor.rs:
// first SETTINGS on stream 0, first WINDOW_UPDATE on stream 0 (else 0), every PRIORITY frame in order.
use super::*;

fn any_frame() -> Http2Frame {
    let ty: u8 = kani::any();
    kani::assume(ty == 0x2 || ty == 0x4 || ty == 0x8 || ty == 0x6);
    let sid: u32 = kani::any();
    kani::assume(sid <= 3);
    let p: [u8; 6] = kani::any();
    // flags are symbolic: the scheme selects frames by type and stream only (ACK, END_STREAM, reserved bits are irrelevant)
    Http2Frame { frame_type: Http2FrameType::from(ty), stream_id: sid, flags: kani::any(), payload: p.to_vec(), length: 6 }
}
/// symbolic type / stream / flags over a FIXED payload (one id:value pair that names the frame's position):
/// cheap enough for the quick tier, decides which frame is selected
fn any_frame_fixed_payload(k: u8) -> Http2Frame {
    let ty: u8 = kani::any();
    kani::assume(ty == 0x2 || ty == 0x4 || ty == 0x8 || ty == 0x6);
    let sid: u32 = kani::any();
    kani::assume(sid <= 1);
    Http2Frame { frame_type: Http2FrameType::from(ty), stream_id: sid, flags: kani::any(), payload: vec![0, k, 0, 0, 1, k], length: 6 }
}
fn ty(f: &Http2Frame) -> u8 {
    match f.frame_type { Http2FrameType::Priority => 2, Http2FrameType::Settings => 4, Http2FrameType::WindowUpdate => 8, _ => 6 }
}
fn check_window_update(frames: Vec<Http2Frame>) {
    // the first connection-level (stream 0) WINDOW_UPDATE decides, whatever precedes it on other streams
    let mut expect: u32 = 0;
    let mut i = 0;
    while i < frames.len() {
        if ty(&frames[i]) == 8 && frames[i].stream_id == 0 {
            let p = &frames[i].payload;
            expect = u32::from_be_bytes([p[0] & 0x7f, p[1], p[2], p[3]]);
            break;
        }
        i += 1;
    }
    assert!(extract_window_update(&frames) == expect);
}
fn check_settings(frames: Vec<Http2Frame>) {
    let got = extract_settings_parameters(&frames);
    let mut i = 0;
    let mut found = false;
    while i < frames.len() {
        if ty(&frames[i]) == 4 && frames[i].stream_id == 0 {
            let p = &frames[i].payload;
            assert!(got.len() == 1);
            assert!(got[0].id.as_u16() == u16::from_be_bytes([p[0], p[1]]));
            assert!(got[0].value == u32::from_be_bytes([p[2], p[3], p[4], p[5]]));
            found = true;
            break;
        }
        i += 1;
    }
    if !found { assert!(got.is_empty()); }
}
fn check_priority(frames: Vec<Http2Frame>) {
    let got = extract_priority_frames(&frames);
    let mut n = 0;
    let mut i = 0;
    while i < frames.len() {
        if ty(&frames[i]) == 2 {
            assert!(n < got.len());
            let p = &frames[i].payload;
            assert!(got[n].stream_id == frames[i].stream_id && got[n].weight == p[4]);
            assert!(got[n].exclusive == (p[0] & 0x80 != 0));
            assert!(got[n].depends_on == u32::from_be_bytes([p[0] & 0x7f, p[1], p[2], p[3]]));
            n += 1;
        }
        i += 1;
    }
    assert!(got.len() == n);
}

#[kani::proof]
#[kani::unwind(8)]
fn c17_window_update_selection() { check_window_update(vec![any_frame(), any_frame()]); }
#[kani::proof]
#[kani::unwind(8)]
fn c17_settings_selection() { check_settings(vec![any_frame(), any_frame()]); }
#[kani::proof]
#[kani::unwind(8)]
fn c17_settings_selection_flags() { check_settings(vec![any_frame_fixed_payload(1), any_frame_fixed_payload(2), any_frame_fixed_payload(3)]); }
#[kani::proof]
#[kani::unwind(8)]
fn c17_priority_selection() { check_priority(vec![any_frame(), any_frame()]); }
#[kani::proof]
#[kani::unwind(8)]
fn c17_window_update_selection_3() { check_window_update(vec![any_frame(), any_frame(), any_frame()]); }
#[kani::proof]
#[kani::unwind(8)]
fn c17_priority_selection_3() { check_priority(vec![any_frame(), any_frame(), any_frame()]); }

// ---- payload decoders, bounded cross-check (unbounded proof: Verus unit c17_payloads): every length 0..12
#[kani::proof]
#[kani::unwind(4)]
fn c17_payload_decoders_bounded() {
    let buf: [u8; 12] = kani::any();
    let len: usize = kani::any();
    kani::assume(len <= 12);
    let p = &buf[..len];
    let wu = parse_window_update_payload(p);
    assert!(wu == if len >= 4 { Some(u32::from_be_bytes([p[0] & 0x7f, p[1], p[2], p[3]])) } else { None });
    let sid: u32 = kani::any();
    match parse_priority_payload(sid, p) {
        Some(pr) => assert!(len >= 5 && pr.stream_id == sid && pr.weight == p[4] && pr.exclusive == (p[0] >= 0x80)
            && pr.depends_on == u32::from_be_bytes([p[0] & 0x7f, p[1], p[2], p[3]])),
        None => assert!(len < 5),
    }
    let st = parse_settings_payload(p);
    assert!(st.len() == len / 6);
    if len >= 6 {
        assert!(st[0].id.as_u16() == u16::from_be_bytes([p[0], p[1]]) && st[0].value == u32::from_be_bytes([p[2], p[3], p[4], p[5]]));
    }
    if len >= 12 {
        assert!(st[1].id.as_u16() == u16::from_be_bytes([p[6], p[7]]) && st[1].value == u32::from_be_bytes([p[8], p[9], p[10], p[11]]));
    }
}

/// the assumption used by the chunking lemma: no frames, no fingerprint
#[kani::proof]
#[kani::unwind(4)]
fn c17_no_frames_no_fingerprint() {
    let frames: Vec<Http2Frame> = Vec::new();
    assert!(extract_akamai_fingerprint(&frames).is_none());
}

// ---- order of pseudo-headers in the first request HEADERS block (HPACK decoding replaced by a steerable list)
fn steer_headers(_payload: &[u8]) -> Result<Vec<HttpHeader>, hpack_patched::decoder::DecoderError> {
    let mut v = Vec::new();
    let mut i = 0;
    while i < NPS {
        let k: u8 = kani::any();
        kani::assume(k < 5);
        let name = match k { 0 => ":method", 1 => ":path", 2 => ":authority", 3 => ":scheme", _ => "accept" };
        let source = if k < 4 { crate::http_common::HeaderSource::Http2PseudoHeader } else { crate::http_common::HeaderSource::Http2Header };
        v.push(HttpHeader { name: String::from(name), value: None, position: i, source });
        PICK[i].store(k as usize, std::sync::atomic::Ordering::SeqCst);
        i += 1;
    }
    Ok(v)
}
const NPS: usize = 2;
static PICK: [std::sync::atomic::AtomicUsize; NPS] = [std::sync::atomic::AtomicUsize::new(0), std::sync::atomic::AtomicUsize::new(0)];
fn ps_code(p: &PseudoHeader) -> u8 {
    match p { PseudoHeader::Method => 0, PseudoHeader::Path => 1, PseudoHeader::Authority => 2, PseudoHeader::Scheme => 3, _ => 9 }
}
#[kani::proof]
#[kani::unwind(12)]
#[kani::stub(decode_headers, steer_headers)]
fn c17_pseudo_header_order() {
    // PS = every pseudo-header of the first request HEADERS block, in block order, wherever regular fields stand
    let f = Http2Frame { frame_type: Http2FrameType::Headers, stream_id: 1, flags: 4, payload: Vec::new(), length: 0 };
    let frames = vec![f];
    let ps = extract_pseudo_header_order(&frames);
    let mut n = 0;
    let mut i = 0;
    while i < NPS {
        let k = PICK[i].load(std::sync::atomic::Ordering::SeqCst) as u8;
        if k < 4 {
            assert!(n < ps.len() && ps_code(&ps[n]) == k);
            n += 1;
        }
        i += 1;
    }
    assert!(ps.len() == n);
}
