// C02 index coverage, appended to huginn-net-db/src/observable_http_signals_matching.rs
// (the private trait HttpSignatureHelper is reachable here).
use super::*;
use crate::db_matching_trait::ObservedFingerprint;

fn any_version(allow_any: bool) -> Version {
    match kani::any::<u8>() % 5 {
        0 => Version::V10,
        1 => Version::V11,
        2 => Version::V20,
        3 => Version::V30,
        _ => if allow_any { Version::Any } else { Version::V11 },
    }
}
/// the index never hides an acceptable entry: whenever the version component of the distance
/// accepts the observation, the observation's key is among the keys generated for the signature
#[kani::proof]
#[kani::unwind(6)]
fn c02_cover_http() {
    let sig = http::Signature { version: any_version(true), horder: Vec::new(), habsent: Vec::new(), expsw: String::new() };
    let obs = HttpRequestObservation { version: any_version(false), horder: Vec::new(), habsent: Vec::new(), expsw: String::new() };
    if obs.distance_ip_version(&sig).is_some() {
        let key = obs.generate_index_key();
        let keys = sig.generate_http_index_keys();
        let mut found = false;
        let mut i = 0;
        while i < keys.len() {
            if keys[i] == key { found = true; }
            i += 1;
        }
        assert!(found);
    }
}
#[kani::proof]
#[kani::unwind(6)]
fn c02_cover_http_response() {
    let sig = http::Signature { version: any_version(true), horder: Vec::new(), habsent: Vec::new(), expsw: String::new() };
    let obs = HttpResponseObservation { version: any_version(false), horder: Vec::new(), habsent: Vec::new(), expsw: String::new() };
    if obs.distance_ip_version(&sig).is_some() {
        let key = obs.generate_index_key();
        let keys = sig.generate_http_index_keys();
        let mut found = false;
        let mut i = 0;
        while i < keys.len() {
            if keys[i] == key { found = true; }
            i += 1;
        }
        assert!(found);
    }
}
/// the index never offers an entry the distance function rejects on the indexed field (no false candidates)
#[kani::proof]
#[kani::unwind(6)]
fn c02_cover_http_exact() {
    let sig = http::Signature { version: any_version(true), horder: Vec::new(), habsent: Vec::new(), expsw: String::new() };
    let obs = HttpRequestObservation { version: any_version(false), horder: Vec::new(), habsent: Vec::new(), expsw: String::new() };
    let key = obs.generate_index_key();
    let keys = sig.generate_http_index_keys();
    let mut found = false;
    let mut i = 0;
    while i < keys.len() {
        if keys[i] == key { found = true; }
        i += 1;
    }
    assert!(found == obs.distance_ip_version(&sig).is_some());
}
#[kani::proof]
#[kani::unwind(6)]
fn c02_cover_canary() {
    let sig = http::Signature { version: any_version(true), horder: Vec::new(), habsent: Vec::new(), expsw: String::new() };
    assert!(sig.generate_http_index_keys().len() == 1);
}


