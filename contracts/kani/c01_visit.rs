// C01 / C03.opts: the TCP option loop of visit_tcp, appended to huginn-net-tcp/src/tcp_process.rs.
use super::*;
use crate::tcp::{IpVersion, Quirk, TcpOption, Ttl};
use std::net::Ipv4Addr;

const NOPT: usize = 4;

fn stub_now() -> Option<u64> { Some(kani::any()) }
fn stub_format(_a: core::fmt::Arguments<'_>) -> String { String::new() }

fn run(buf: &[u8]) -> Result<ObservableTCPPackage, HuginnNetTcpError> {
    let tcp = TcpPacket::new(buf).unwrap();
    let mut cache: TtlCache<ConnectionKey, TcpTimestamp> = TtlCache::new(2);
    let ip = IpAddr::V4(Ipv4Addr::new(10, 0, 0, 1));
    visit_tcp(&mut cache, &tcp, IpVersion::V4, Ttl::Value(64), 5, 0, vec![], ip, ip)
}
/// every (kind, length, position) encoding in a 4-byte option area, any flags: no panic, no overflow
#[kani::proof]
#[kani::unwind(10)]
#[kani::stub(crate::uptime::get_unix_time_ms, stub_now)]
#[kani::stub(alloc::fmt::format, stub_format)]
fn c01_visit_options_total() {
    let mut buf = [0u8; 20 + NOPT];
    buf[12] = ((5 + NOPT / 4) as u8) << 4;
    buf[13] = kani::any();
    buf[14] = kani::any();
    buf[15] = kani::any();
    let mut i = 0;
    while i < NOPT {
        buf[20 + i] = kani::any();
        i += 1;
    }
    let _ = run(&buf);
}
fn opt_code(o: &TcpOption) -> (u8, u8) {
    match o {
        TcpOption::Eol(n) => (0, *n), TcpOption::Nop => (1, 0), TcpOption::Mss => (2, 0), TcpOption::Ws => (3, 0),
        TcpOption::Sok => (4, 0), TcpOption::Sack => (5, 0), TcpOption::TS => (8, 0), TcpOption::Unknown(k) => (255, *k),
    }
}
/// well-formed option areas of 4 bytes (SYN): kinds in wire order up to the end-of-options marker
/// with its padding count, MSS / window-scale values, exws and opt+ quirks
#[kani::proof]
#[kani::unwind(10)]
#[kani::stub(crate::uptime::get_unix_time_ms, stub_now)]
#[kani::stub(alloc::fmt::format, stub_format)]
fn c03_opts_wellformed() {
    let mut buf = [0u8; 20 + NOPT];
    buf[12] = ((5 + NOPT / 4) as u8) << 4;
    buf[13] = 0x02; // SYN
    buf[4] = 1; // non-zero sequence number
    let o: [u8; NOPT] = kani::any();
    let mut i = 0;
    while i < NOPT { buf[20 + i] = o[i]; i += 1; }
    // oracle: walk the option area per RFC 793 / p0f
    let mut exp: [(u8, u8); NOPT] = [(9, 9); NOPT];
    let mut n = 0;
    let mut pos = 0;
    let mut mss: Option<u16> = None;
    let mut ws: Option<u8> = None;
    let mut trailing_nonzero = false;
    let mut well_formed = true;
    while pos < NOPT {
        let k = o[pos];
        if k == 0 {
            let rest = NOPT - pos - 1;
            exp[n] = (0, rest as u8); n += 1;
            let mut j = pos + 1;
            while j < NOPT { if o[j] != 0 { trailing_nonzero = true; } j += 1; }
            break; // end of option list: nothing after it is an option
        } else if k == 1 {
            exp[n] = (1, 0); n += 1; pos += 1;
        } else {
            if pos + 1 >= NOPT { well_formed = false; break; }
            let len = o[pos + 1] as usize;
            let want = match k { 2 => 4, 3 => 3, 4 => 2, _ => 0 };
            if want == 0 || len != want || pos + len > NOPT { well_formed = false; break; }
            match k {
                2 => { exp[n] = (2, 0); mss = Some(u16::from_be_bytes([o[pos + 2], o[pos + 3]])); }
                3 => { exp[n] = (3, 0); ws = Some(o[pos + 2]); }
                _ => { exp[n] = (4, 0); }
            }
            n += 1; pos += len;
        }
    }
    kani::assume(well_formed);
    let r = run(&buf);
    assert!(r.is_ok());
    if let Ok(p) = r {
        let m = p.tcp_request.unwrap().matching;
        assert!(m.olayout.len() == n);
        let mut i = 0;
        while i < n { assert!(opt_code(&m.olayout[i]) == exp[i]); i += 1; }
        assert!(m.mss == mss && m.wscale == ws);
        let has = |q: Quirk| -> bool { let mut f = false; let mut i = 0; while i < m.quirks.len() { if m.quirks[i] == q { f = true; } i += 1; } f };
        assert!(has(Quirk::TrailinigNonZero) == trailing_nonzero);
        assert!(has(Quirk::ExcessiveWindowScaling) == (ws.is_some() && ws.unwrap() > 14));
    }
}
#[kani::proof]
#[kani::unwind(10)]
#[kani::stub(crate::uptime::get_unix_time_ms, stub_now)]
#[kani::stub(alloc::fmt::format, stub_format)]
fn c03_opts_no_eol() {
    // complement of the known-finding region: option areas without an end-of-options marker
    let mut buf = [0u8; 20 + NOPT];
    buf[12] = ((5 + NOPT / 4) as u8) << 4;
    buf[13] = 0x02;
    buf[4] = 1;
    // the four well-formed EOL-free layouts of a 4-byte area
    let ws: u8 = kani::any();
    let (m1, m2): (u8, u8) = (kani::any(), kani::any());
    let which: u8 = kani::any();
    kani::assume(which < 3);
    let exp_n;
    if which == 0 { buf[20] = 2; buf[21] = 4; buf[22] = m1; buf[23] = m2; exp_n = 1; }
    else if which == 1 { buf[20] = 1; buf[21] = 3; buf[22] = 3; buf[23] = ws; exp_n = 2; }
    else { buf[20] = 4; buf[21] = 2; buf[22] = 1; buf[23] = 1; exp_n = 3; }
    let r = run(&buf);
    assert!(r.is_ok());
    let m = r.unwrap().tcp_request.unwrap().matching;
    assert!(m.olayout.len() == exp_n);
    if which == 0 { assert!(m.olayout[0] == TcpOption::Mss && m.mss == Some(u16::from_be_bytes([m1, m2])) && m.wscale.is_none()); }
    if which == 1 { assert!(m.olayout[0] == TcpOption::Nop && m.olayout[1] == TcpOption::Ws && m.wscale == Some(ws) && m.mss.is_none()); }
    if which == 2 { assert!(m.olayout[0] == TcpOption::Sok && m.olayout[1] == TcpOption::Nop && m.olayout[2] == TcpOption::Nop); }
}

/// a window-scale option whose length byte leaves no value byte (kind 3, length 2) must not crash
#[kani::proof]
#[kani::unwind(10)]
#[kani::stub(crate::uptime::get_unix_time_ms, stub_now)]
#[kani::stub(alloc::fmt::format, stub_format)]
fn c01_visit_wscale_without_value() {
    let mut buf = [0u8; 20 + NOPT];
    buf[12] = ((5 + NOPT / 4) as u8) << 4;
    buf[13] = 0x02;
    buf[4] = 1;
    buf[20] = 3; buf[21] = 2; buf[22] = 1; buf[23] = 1;
    let r = run(&buf);
    assert!(r.is_ok());
}
