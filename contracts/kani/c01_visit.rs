// C01 / C03.opts: the TCP option loop of visit_tcp, appended to huginn-net-tcp/src/tcp_process.rs.
use super::*;
use crate::tcp::{IpVersion, Quirk, TcpOption, Ttl};
use std::net::Ipv4Addr;

const NOPT: usize = 4;

fn stub_now() -> Option<u64> { Some(kani::any()) }
fn stub_format(_a: core::fmt::Arguments<'_>) -> String { String::new() }

fn run(buf: &[u8]) -> Result<ObservableTCPPackage, HuginnNetTcpError> {
    let tcp = TcpPacket::new(buf).unwrap();
    let mut cache: TtlCache<ConnectionKey, TcpTimestamp> = TtlCache::new(2);
    let ip = IpAddr::V4(Ipv4Addr::new(10, 0, 0, 1));
    visit_tcp(&mut cache, &tcp, IpVersion::V4, Ttl::Value(64), 5, 0, vec![], ip, ip)
}
fn syn_with_options(o: [u8; NOPT]) -> [u8; 20 + NOPT] {
    let mut buf = [0u8; 20 + NOPT];
    buf[12] = ((5 + NOPT / 4) as u8) << 4;
    buf[13] = 0x02; // SYN
    buf[4] = 1; // non-zero sequence number
    let mut i = 0;
    while i < NOPT { buf[20 + i] = o[i]; i += 1; }
    buf
}
fn has_quirk(qs: &[Quirk], q: Quirk) -> bool {
    let mut f = false;
    let mut i = 0;
    while i < qs.len() { if qs[i] == q { f = true; } i += 1; }
    f
}
// Option kinds and lengths are fixed per harness (a symbolic option area did not terminate in
// CBMC); the option VALUES are symbolic.
#[kani::proof]
#[kani::unwind(10)]
#[kani::stub(crate::uptime::get_unix_time_ms, stub_now)]
#[kani::stub(alloc::fmt::format, stub_format)]
fn c03_opts_mss() {
    let (m1, m2): (u8, u8) = (kani::any(), kani::any());
    let m = run(&syn_with_options([2, 4, m1, m2])).unwrap().tcp_request.unwrap().matching;
    assert!(m.olayout.len() == 1 && m.olayout[0] == TcpOption::Mss);
    assert!(m.mss == Some(u16::from_be_bytes([m1, m2])) && m.wscale.is_none());
}
#[kani::proof]
#[kani::unwind(10)]
#[kani::stub(crate::uptime::get_unix_time_ms, stub_now)]
#[kani::stub(alloc::fmt::format, stub_format)]
fn c03_opts_nop_ws() {
    let ws: u8 = kani::any();
    let m = run(&syn_with_options([1, 3, 3, ws])).unwrap().tcp_request.unwrap().matching;
    assert!(m.olayout.len() == 2 && m.olayout[0] == TcpOption::Nop && m.olayout[1] == TcpOption::Ws);
    assert!(m.wscale == Some(ws) && m.mss.is_none());
    assert!(has_quirk(&m.quirks, Quirk::ExcessiveWindowScaling) == (ws > 14));
}
#[kani::proof]
#[kani::unwind(10)]
#[kani::stub(crate::uptime::get_unix_time_ms, stub_now)]
#[kani::stub(alloc::fmt::format, stub_format)]
fn c03_opts_two_byte_kinds() {
    // sok, sack and an unknown kind: 2-byte options reported by kind, in wire order
    let m = run(&syn_with_options([4, 2, 5, 2])).unwrap().tcp_request.unwrap().matching;
    assert!(m.olayout.len() == 2 && m.olayout[0] == TcpOption::Sok && m.olayout[1] == TcpOption::Sack);
    let u = run(&syn_with_options([0x22, 2, 1, 1])).unwrap().tcp_request.unwrap().matching;
    assert!(u.olayout.len() == 3 && u.olayout[0] == TcpOption::Unknown(0x22) && u.olayout[1] == TcpOption::Nop);
}
#[kani::proof]
#[kani::unwind(10)]
#[kani::stub(crate::uptime::get_unix_time_ms, stub_now)]
#[kani::stub(alloc::fmt::format, stub_format)]
fn c03_opts_eol_last_byte() {
    // complement of the known-finding region: end-of-options marker in the last byte (no padding)
    let m = run(&syn_with_options([1, 1, 1, 0])).unwrap().tcp_request.unwrap().matching;
    assert!(m.olayout.len() == 4 && m.olayout[3] == TcpOption::Eol(0));
    assert!(!has_quirk(&m.quirks, Quirk::TrailinigNonZero));
}
#[kani::proof]
#[kani::unwind(10)]
#[kani::stub(crate::uptime::get_unix_time_ms, stub_now)]
#[kani::stub(alloc::fmt::format, stub_format)]
fn c03_opts_eol_padding() {
    // nop, nop, eol, one zero padding byte: the layout ends at the marker, which carries the padding count
    let m = run(&syn_with_options([1, 1, 0, 0])).unwrap().tcp_request.unwrap().matching;
    assert!(!has_quirk(&m.quirks, Quirk::TrailinigNonZero));
    assert!(m.olayout.len() == 3 && m.olayout[2] == TcpOption::Eol(1));
}
/// a window-scale option whose length byte leaves no value byte (kind 3, length 2) must not crash
#[kani::proof]
#[kani::unwind(10)]
#[kani::stub(crate::uptime::get_unix_time_ms, stub_now)]
#[kani::stub(alloc::fmt::format, stub_format)]
fn c01_visit_wscale_without_value() {
    let mut buf = [0u8; 20 + NOPT];
    buf[12] = ((5 + NOPT / 4) as u8) << 4;
    buf[13] = 0x02;
    buf[4] = 1;
    buf[20] = 3; buf[21] = 2; buf[22] = 1; buf[23] = 1;
    let r = run(&buf);
    assert!(r.is_ok());
}

/// the window is classified with "timestamp present" exactly when the option layout lists ts,
/// also for a short / truncated timestamp option (8-byte option area: mss 1460, ts with length 4)
#[kani::proof]
#[kani::unwind(12)]
#[kani::stub(crate::uptime::get_unix_time_ms, stub_now)]
#[kani::stub(alloc::fmt::format, stub_format)]
fn c03_opts_short_ts_window() {
    let mut buf = [0u8; 28];
    buf[12] = 7 << 4;
    buf[13] = 0x02;
    buf[4] = 1;
    let w: u16 = kani::any();
    buf[14] = (w >> 8) as u8;
    buf[15] = w as u8;
    buf[20] = 2; buf[21] = 4; buf[22] = 0x05; buf[23] = 0xb4; // mss 1460
    buf[24] = 8; buf[25] = 4; buf[26] = 0; buf[27] = 0;       // timestamp option cut short
    let m = run(&buf).unwrap().tcp_request.unwrap().matching;
    assert!(m.olayout.len() == 2 && m.olayout[0] == TcpOption::Mss && m.olayout[1] == TcpOption::TS);
    assert!(m.mss == Some(1460));
    assert!(m.wsize == crate::window_size::detect_win_multiplicator(w, 1460, 5, true, &IpVersion::V4));
}


/// the link MTU is reported for a SYN and only for a SYN: a SYN+ACK carrying an MSS option yields a server
/// signature and no MTU (option area fixed to one MSS option, MSS value and the ACK bit symbolic)
#[kani::proof]
#[kani::unwind(10)]
#[kani::stub(crate::uptime::get_unix_time_ms, stub_now)]
#[kani::stub(alloc::fmt::format, stub_format)]
fn c03_mtu_only_for_syn() {
    let (m1, m2): (u8, u8) = (kani::any(), kani::any());
    let mss = u16::from_be_bytes([m1, m2]);
    kani::assume(mss >= 1 && mss <= 65000);
    let mut buf = syn_with_options([2, 4, m1, m2]);
    let ack: bool = kani::any();
    if ack { buf[13] = 0x12; buf[8] = 1; } // SYN+ACK with a non-zero acknowledgment number
    let p = run(&buf).unwrap();
    if ack {
        assert!(p.tcp_response.is_some() && p.tcp_request.is_none());
        assert!(p.mtu.is_none());
    } else {
        assert!(p.tcp_request.is_some() && p.tcp_response.is_none());
        assert!(p.mtu.is_some());
    }
}
