// C18 for the TCP pool: the worker is chosen from hash_source_ip(frame) % n (parallel.rs dispatch).
use super::*;
const N: usize = 64;

/// Two frames of the same framing that carry the same source address and differ arbitrarily
/// in every other byte hash identically (identity = source address alone).
fn same_source_same_hash(ipoff: usize, v6: bool) {
    let p: [u8; N] = kani::any();
    let mut q: [u8; N] = kani::any();
    let (lp, lq): (usize, usize) = (kani::any(), kani::any());
    kani::assume(lp <= N && lq <= N);
    let min = ipoff + if v6 { 40 } else { 20 };
    kani::assume(lp >= min && lq >= min);
    // framing bytes: same link type and IP version on both
    if ipoff == 14 {
        kani::assume(p[12] == if v6 { 0x86 } else { 0x08 } && p[13] == if v6 { 0xDD } else { 0x00 });
        q[12] = p[12];
        q[13] = p[13];
    } else {
        // raw IP: must not look like Ethernet
        kani::assume(!((p[12] == 0x08 && p[13] == 0x00) || (p[12] == 0x86 && p[13] == 0xDD)));
        kani::assume(!((q[12] == 0x08 && q[13] == 0x00) || (q[12] == 0x86 && q[13] == 0xDD)));
    }
    kani::assume(p[ipoff] >> 4 == if v6 { 6 } else { 4 });
    q[ipoff] = (q[ipoff] & 0x0f) | (p[ipoff] & 0xf0);
    let (a, b) = if v6 { (ipoff + 8, ipoff + 24) } else { (ipoff + 12, ipoff + 16) };
    let mut i = a;
    while i < b {
        q[i] = p[i];
        i += 1;
    }
    if ipoff == 0 {
        // the copied address bytes may overlap offsets 12/13 for raw IPv4/IPv6: keep the framing assumption
        kani::assume(!((q[12] == 0x08 && q[13] == 0x00) || (q[12] == 0x86 && q[13] == 0xDD)));
    }
    assert!(hash_source_ip(&p[..lp]) == hash_source_ip(&q[..lq]));
}
#[kani::proof]
#[kani::unwind(18)]
fn c18_tcp_identity_eth_v4() { same_source_same_hash(14, false); }
#[kani::proof]
#[kani::unwind(18)]
fn c18_tcp_identity_eth_v6() { same_source_same_hash(14, true); }
#[kani::proof]
#[kani::unwind(18)]
fn c18_tcp_identity_raw_v4() { same_source_same_hash(0, false); }
#[kani::proof]
#[kani::unwind(18)]
fn c18_tcp_identity_raw_v6() { same_source_same_hash(0, true); }
#[kani::proof]
#[kani::unwind(18)]
fn c18_tcp_identity_canary() {
    // must FAIL: frames with different sources are not forced onto one hash
    let p: [u8; 34] = kani::any();
    let q: [u8; 34] = kani::any();
    kani::assume(p[12] == 0x08 && p[13] == 0 && q[12] == 0x08 && q[13] == 0 && p[14] >> 4 == 4 && q[14] >> 4 == 4);
    assert!(hash_source_ip(&p) == hash_source_ip(&q));
}
#[kani::proof]
fn c18_tcp_total() {
    // no frame makes the hash panic (index / slice bounds), any length up to N
    let p: [u8; N] = kani::any();
    let l: usize = kani::any();
    kani::assume(l <= N);
    let _ = hash_source_ip(&p[..l]);
}
