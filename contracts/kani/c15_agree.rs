// C15 decoder agreement, appended to <crate>/src/raw_filter.rs (same text for tcp/http/tls).
// For every frame: if the analyzer's own decoder (parse_packet -> pnet views -> TcpPacket) yields
// endpoints, the filter's quick extraction yields the same endpoints, so the filter decides on
// exactly the endpoints the analyzer would report.
use super::*;
use crate::packet_parser::{parse_packet, IpPacket};
use pnet::packet::ip::IpNextHeaderProtocols;
use pnet::packet::tcp::TcpPacket;
use pnet::packet::Packet;

const N: usize = 96;

fn analyzer_endpoints(frame: &[u8]) -> Option<(IpAddr, IpAddr, u16, u16)> {
    match parse_packet(frame) {
        IpPacket::Ipv4(ip) => {
            if ip.get_next_level_protocol() != IpNextHeaderProtocols::Tcp {
                return None;
            }
            let tcp = TcpPacket::new(ip.payload())?;
            Some((IpAddr::V4(ip.get_source()), IpAddr::V4(ip.get_destination()), tcp.get_source(), tcp.get_destination()))
        }
        IpPacket::Ipv6(ip) => {
            if ip.get_next_header() != IpNextHeaderProtocols::Tcp {
                return None;
            }
            let tcp = TcpPacket::new(ip.payload())?;
            Some((IpAddr::V6(ip.get_source()), IpAddr::V6(ip.get_destination()), tcp.get_source(), tcp.get_destination()))
        }
        IpPacket::None => None,
    }
}
fn agree(frame: &[u8]) {
    if let Some(e) = analyzer_endpoints(frame) {
        assert!(extract_quick_info(frame) == Some(e));
    }
}
#[kani::proof]
fn c15_agree_all() {
    let buf: [u8; N] = kani::any();
    let len: usize = kani::any();
    kani::assume(len <= N);
    agree(&buf[..len]);
}
#[kani::proof]
fn c15_agree_all_160() {
    // thorough tier: the same obligation up to 160 bytes (room for a 60-byte IPv4 header behind every framing)
    let buf: [u8; 160] = kani::any();
    let len: usize = kani::any();
    kani::assume(len <= 160);
    agree(&buf[..len]);
}
#[kani::proof]
fn c15_agree_ethernet() {
    // the common framing on its own, so that a regression names the framing it breaks
    let buf: [u8; N] = kani::any();
    let len: usize = kani::any();
    kani::assume(len <= N && len >= 14);
    let f = &buf[..len];
    kani::assume((f[12] == 0x08 && f[13] == 0x00) || (f[12] == 0x86 && f[13] == 0xDD));
    agree(f);
}
#[kani::proof]
fn c15_agree_canary() {
    // must FAIL: some frames do decode to endpoints
    let buf: [u8; N] = kani::any();
    let len: usize = kani::any();
    kani::assume(len <= N);
    assert!(analyzer_endpoints(&buf[..len]).is_none());
}
#[kani::proof]
fn c15_apply_composition() {
    // apply == should_process(extracted endpoints); fail-open only when nothing can be extracted
    let buf: [u8; 64] = kani::any();
    let len: usize = kani::any();
    kani::assume(len <= 64);
    let f = &buf[..len];
    let cfg = FilterConfig::new().mode(if kani::any() { crate::filter::FilterMode::Allow } else { crate::filter::FilterMode::Deny })
        .with_port_filter(crate::filter::PortFilter::new().destination(kani::any()));
    match extract_quick_info(f) {
        Some((s, d, sp, dp)) => assert!(apply(f, &cfg) == cfg.should_process(&s, &d, sp, dp)),
        None => assert!(apply(f, &cfg)),
    }
}
