// C15 decoder agreement, appended to <crate>/src/raw_filter.rs (same text for tcp/http/tls).
// For every frame: if the analyzer's own decoder (parse_packet -> pnet views -> TcpPacket) yields
// endpoints, the filter's quick extraction yields the same endpoints, so the filter decides on
// exactly the endpoints the analyzer would report.
use super::*;
use crate::packet_parser::{parse_packet, IpPacket};
use pnet::packet::ip::IpNextHeaderProtocols;
use pnet::packet::tcp::TcpPacket;
use pnet::packet::Packet;

const N: usize = 96;

fn ep_v4(ip: &pnet::packet::ipv4::Ipv4Packet) -> Option<(IpAddr, IpAddr, u16, u16)> {
    if ip.get_next_level_protocol() != IpNextHeaderProtocols::Tcp {
        return None;
    }
    let tcp = TcpPacket::new(ip.payload())?;
    Some((IpAddr::V4(ip.get_source()), IpAddr::V4(ip.get_destination()), tcp.get_source(), tcp.get_destination()))
}
fn ep_v6(ip: &pnet::packet::ipv6::Ipv6Packet) -> Option<(IpAddr, IpAddr, u16, u16)> {
    if ip.get_next_header() != IpNextHeaderProtocols::Tcp {
        return None;
    }
    let tcp = TcpPacket::new(ip.payload())?;
    Some((IpAddr::V6(ip.get_source()), IpAddr::V6(ip.get_destination()), tcp.get_source(), tcp.get_destination()))
}
fn analyzer_endpoints(frame: &[u8]) -> Option<(IpAddr, IpAddr, u16, u16)> {
    match parse_packet(frame) {
        IpPacket::Ipv4(ip) => ep_v4(&ip),
        IpPacket::Ipv6(ip) => ep_v6(&ip),
        IpPacket::None => None,
    }
}
// ---- validation of the pnet contracts ASSUMED by the Verus units c15_parser_* (contracts/prelude/pnet_views.rs)
fn be16(a: u8, b: u8) -> u16 { u16::from_be_bytes([a, b]) }
/// exec transcription of spec an_v4
fn model_v4(d: &[u8]) -> Option<(IpAddr, IpAddr, u16, u16)> {
    if d.len() < 20 || d[9] != 6 { return None; }
    let ihl = (d[0] & 0x0F) as usize;
    let start = if ihl < 5 { 20 } else { ihl * 4 };
    let tl = be16(d[2], d[3]) as usize;
    let plen = if tl >= ihl * 4 { tl - ihl * 4 } else { 0 };
    let t: &[u8] = if d.len() <= start { &[] } else { &d[start..core::cmp::min(start + plen, d.len())] };
    if t.len() < 20 { return None; }
    Some((IpAddr::V4(Ipv4Addr::new(d[12], d[13], d[14], d[15])), IpAddr::V4(Ipv4Addr::new(d[16], d[17], d[18], d[19])), be16(t[0], t[1]), be16(t[2], t[3])))
}
/// exec transcription of spec an_v6
fn model_v6(d: &[u8]) -> Option<(IpAddr, IpAddr, u16, u16)> {
    if d.len() < 40 || d[6] != 6 { return None; }
    let plen = be16(d[4], d[5]) as usize;
    let t: &[u8] = if d.len() <= 40 { &[] } else { &d[40..core::cmp::min(40 + plen, d.len())] };
    if t.len() < 20 { return None; }
    let w = |i: usize| be16(d[i], d[i + 1]);
    Some((IpAddr::V6(Ipv6Addr::new(w(8), w(10), w(12), w(14), w(16), w(18), w(20), w(22))),
          IpAddr::V6(Ipv6Addr::new(w(24), w(26), w(28), w(30), w(32), w(34), w(36), w(38))), be16(t[0], t[1]), be16(t[2], t[3])))
}
#[kani::proof]
fn c15_pnet_constructors() {
    use pnet::packet::ethernet::EthernetPacket;
    let buf: [u8; 64] = kani::any();
    let len: usize = kani::any();
    kani::assume(len <= 64);
    let d = &buf[..len];
    assert!(EthernetPacket::new(d).is_some() == (len >= 14));
    assert!(pnet::packet::ipv4::Ipv4Packet::new(d).is_some() == (len >= 20));
    assert!(pnet::packet::ipv6::Ipv6Packet::new(d).is_some() == (len >= 40));
    assert!(TcpPacket::new(d).is_some() == (len >= 20));
    if let Some(e) = EthernetPacket::new(d) {
        assert!(e.get_ethertype().0 == be16(d[12], d[13]));
        assert!(e.packet().as_ptr() == d.as_ptr() && e.packet().len() == d.len());
    }
    if let Some(v) = pnet::packet::ipv4::Ipv4Packet::new(d) {
        assert!(v.packet().as_ptr() == d.as_ptr() && v.packet().len() == d.len());
    }
    if let Some(v) = pnet::packet::ipv6::Ipv6Packet::new(d) {
        assert!(v.packet().as_ptr() == d.as_ptr() && v.packet().len() == d.len());
    }
}
#[kani::proof]
fn c15_pnet_model_v4() {
    let buf: [u8; N] = kani::any();
    let len: usize = kani::any();
    kani::assume(len <= N && len >= 20);
    let d = &buf[..len];
    let ip = pnet::packet::ipv4::Ipv4Packet::new(d).unwrap();
    assert!(ep_v4(&ip) == model_v4(d));
}
#[kani::proof]
fn c15_pnet_model_v6() {
    let buf: [u8; N] = kani::any();
    let len: usize = kani::any();
    kani::assume(len <= N && len >= 40);
    let d = &buf[..len];
    let ip = pnet::packet::ipv6::Ipv6Packet::new(d).unwrap();
    assert!(ep_v6(&ip) == model_v6(d));
}
fn agree(frame: &[u8]) {
    if let Some(e) = analyzer_endpoints(frame) {
        assert!(extract_quick_info(frame) == Some(e));
    }
}
#[kani::proof]
fn c15_agree_all() {
    let buf: [u8; N] = kani::any();
    let len: usize = kani::any();
    kani::assume(len <= N);
    agree(&buf[..len]);
}
#[kani::proof]
fn c15_agree_all_160() {
    // thorough tier: the same obligation up to 160 bytes (room for a 60-byte IPv4 header behind every framing)
    let buf: [u8; 160] = kani::any();
    let len: usize = kani::any();
    kani::assume(len <= 160);
    agree(&buf[..len]);
}
#[kani::proof]
fn c15_agree_ethernet() {
    // the common framing on its own, so that a regression names the framing it breaks
    let buf: [u8; N] = kani::any();
    let len: usize = kani::any();
    kani::assume(len <= N && len >= 14);
    let f = &buf[..len];
    kani::assume((f[12] == 0x08 && f[13] == 0x00) || (f[12] == 0x86 && f[13] == 0xDD));
    agree(f);
}
#[kani::proof]
fn c15_agree_canary() {
    // must FAIL: some frames do decode to endpoints
    let buf: [u8; N] = kani::any();
    let len: usize = kani::any();
    kani::assume(len <= N);
    assert!(analyzer_endpoints(&buf[..len]).is_none());
}
#[kani::proof]
fn c15_apply_composition() {
    // apply == should_process(extracted endpoints); fail-open only when nothing can be extracted
    let buf: [u8; 64] = kani::any();
    let len: usize = kani::any();
    kani::assume(len <= 64);
    let f = &buf[..len];
    let cfg = FilterConfig::new().mode(if kani::any() { crate::filter::FilterMode::Allow } else { crate::filter::FilterMode::Deny })
        .with_port_filter(crate::filter::PortFilter::new().destination(kani::any()));
    match extract_quick_info(f) {
        Some((s, d, sp, dp)) => assert!(apply(f, &cfg) == cfg.should_process(&s, &d, sp, dp)),
        None => assert!(apply(f, &cfg)),
    }
}
