// Bounded cross-check of the JA4 version rule (unbounded proof: Verus unit c04_version),
// appended to huginn-net-tls/src/tls_process.rs.
use super::*;

#[kani::proof]
#[kani::unwind(20)]
fn c04_highest_non_grease_bounded() {
    let codes: [u16; 3] = kani::any();
    let n: usize = kani::any();
    kani::assume(n <= 3);
    let r = highest_non_grease(&codes[..n]);
    let grease = |v: u16| ((v >> 8) as u8) == (v as u8) && (v & 0x0f) == 0x0a;
    let mut best: Option<u16> = None;
    let mut i = 0;
    while i < n {
        if !grease(codes[i]) && (best.is_none() || codes[i] > best.unwrap()) { best = Some(codes[i]); }
        i += 1;
    }
    assert!(r == best);
}
