// C09 harnesses, appended to huginn-net-http/src/http_process.rs (TcpFlow / TcpData are private).
use super::*;
use std::net::Ipv4Addr;

fn flow_with(client: Vec<TcpData>) -> TcpFlow {
    let ip = IpAddr::V4(Ipv4Addr::new(10, 0, 0, 1));
    TcpFlow { client_ip: ip, server_ip: ip, client_port: 1, server_port: 2, client_data: client, server_data: Vec::new(),
        client_http_parsed: false, server_http_parsed: false }
}
/// three one-byte segments of a stream starting at isn+1, stored in any arrival order:
/// reassembly returns the stream, for every initial sequence number
fn reassembles_in_order(isn: u32) {
    let b: [u8; 3] = kani::any();
    let s0 = isn.wrapping_add(1);
    let segs = [(s0, b[0]), (s0.wrapping_add(1), b[1]), (s0.wrapping_add(2), b[2])];
    // arrival permutation
    let p: u8 = kani::any();
    kani::assume(p < 6);
    let order: [usize; 3] = match p { 0 => [0, 1, 2], 1 => [0, 2, 1], 2 => [1, 0, 2], 3 => [1, 2, 0], 4 => [2, 0, 1], _ => [2, 1, 0] };
    let client = vec![
        TcpData { sequence: segs[order[0]].0, data: vec![segs[order[0]].1] },
        TcpData { sequence: segs[order[1]].0, data: vec![segs[order[1]].1] },
        TcpData { sequence: segs[order[2]].0, data: vec![segs[order[2]].1] },
    ];
    let flow = flow_with(client);
    let full = flow.get_full_data(true);
    assert!(full.len() == 3 && full[0] == b[0] && full[1] == b[1] && full[2] == b[2]);
}
#[kani::proof]
#[kani::unwind(8)]
fn c09_order_no_wrap() {
    let isn: u32 = kani::any();
    kani::assume(isn < u32::MAX - 4); // complement of the wrap region
    reassembles_in_order(isn);
}
#[kani::proof]
#[kani::unwind(8)]
fn c09_order_all_isn() {
    reassembles_in_order(kani::any());
}
#[kani::proof]
#[kani::unwind(8)]
fn c09_order_canary() {
    let b: [u8; 2] = kani::any();
    let flow = flow_with(vec![TcpData { sequence: 5, data: vec![b[0]] }, TcpData { sequence: 4, data: vec![b[1]] }]);
    let full = flow.get_full_data(true);
    assert!(full[0] == b[0]); // must FAIL: arrival order is not stream order
}
/// a head is never assembled across a gap: with the middle segment missing, the bytes after the
/// gap must not be appended to the bytes before it
#[kani::proof]
#[kani::unwind(8)]
fn c09_no_concatenation_across_gap() {
    let isn: u32 = kani::any();
    kani::assume(isn < u32::MAX - 8);
    let b: [u8; 2] = kani::any();
    let s0 = isn.wrapping_add(1);
    let flow = flow_with(vec![TcpData { sequence: s0, data: vec![b[0]] }, TcpData { sequence: s0 + 2, data: vec![b[1]] }]);
    let full = flow.get_full_data(true);
    assert!(full.len() <= 1);
}
