// C04 harnesses, appended to huginn-net-tls/src/tls.rs.
use super::*;
use crate::tls_process::determine_tls_version;

/// RFC 8701: the 16 GREASE values are 0x?A?A with both bytes equal
#[kani::proof]
#[kani::unwind(18)]
fn c04_grease_values() {
    let v: u16 = kani::any();
    let hi = (v >> 8) as u8;
    let lo = v as u8;
    assert!(is_grease_value(v) == (hi == lo && (lo & 0x0f) == 0x0a));
}
/// version selection from the legacy field: SSL3.0..TLS1.3 by code, anything else is unknown ("00")
#[kani::proof]
fn c04_legacy_version_table() {
    let code: u16 = kani::any();
    let v = determine_tls_version(&tls_parser::TlsVersion(code), &[]);
    let expect = match code {
        0x0304 => TlsVersion::V1_3,
        0x0303 => TlsVersion::V1_2,
        0x0302 => TlsVersion::V1_1,
        0x0301 => TlsVersion::V1_0,
        0x0300 => TlsVersion::Ssl3_0,
        other => TlsVersion::Unknown(other),
    };
    assert!(v == expect);
}
#[kani::proof]
fn c04_legacy_version_canary() {
    let code: u16 = kani::any();
    assert!(determine_tls_version(&tls_parser::TlsVersion(code), &[]) == TlsVersion::V1_2);
}

// ---- version selection on the real extractor (nom-parsed extension bytes: bounded by construction)
use crate::tls_process::extract_tls_signature_from_client_hello;
use tls_parser::{TlsCipherSuiteID, TlsClientHelloContents, TlsCompressionID};

fn is_grease(v: u16) -> bool { ((v >> 8) as u8) == (v as u8) && (v & 0x0f) == 0x0a }
fn code_to_version(code: u16) -> TlsVersion {
    match code {
        0x0304 => TlsVersion::V1_3, 0x0303 => TlsVersion::V1_2, 0x0302 => TlsVersion::V1_1,
        0x0301 => TlsVersion::V1_0, 0x0300 => TlsVersion::Ssl3_0, other => TlsVersion::Unknown(other),
    }
}
#[kani::proof]
#[kani::unwind(20)]
fn c04_version_without_extension() {
    let legacy: u16 = kani::any();
    let random = [0u8; 32];
    let ch = TlsClientHelloContents::new(legacy, &random, None, vec![TlsCipherSuiteID(0x1301)], vec![TlsCompressionID(0)], None);
    let sig = extract_tls_signature_from_client_hello(&ch).unwrap();
    assert!(sig.version == code_to_version(legacy));
}

// ---- empty lists hash to twelve zeros (JA4: "000000000000" for an empty cipher / extension list)
// (generate_ja4_with_order itself is format!/join/sort code that CBMC does not finish even on the
// empty signature; the rule lives in this helper, its two call sites are covered by reading only)
#[kani::proof]
#[kani::unwind(16)]
fn c04_empty_list_hash_is_zeros() {
    let h = hash12_or_zeros("");
    let b = h.as_bytes();
    assert!(b.len() == 12);
    let mut i = 0;
    while i < 12 {
        assert!(b[i] == b'0');
        i += 1;
    }
}
