// Bounded cross-check of distance_header (unbounded proof: Verus unit c12_http). Kept because a
// structural rewrite of the function loses the Verus loop anchors (exit 2) while this harness still
// decides the bounded instances.  Appended to huginn-net-db/src/observable_http_signals_matching.rs.
use super::*;

fn any_header() -> Header {
    let name = if kani::any() { "a" } else { "b" };
    let value = match kani::any::<u8>() % 3 { 0 => None, 1 => Some("x".to_string()), _ => Some("y".to_string()) };
    Header { optional: kani::any(), name: name.to_string(), value }
}
fn any_list(max: usize) -> Vec<Header> {
    let n: usize = kani::any();
    kani::assume(n <= max);
    match n {
        0 => Vec::new(),
        1 => vec![any_header()],
        2 => vec![any_header(), any_header()],
        _ => vec![any_header(), any_header(), any_header()],
    }
}
/// errors of the ordered comparison (optional signature headers may be absent), written recursively
fn errors(obs: &[Header], sig: &[Header]) -> u32 {
    if sig.is_empty() {
        return obs.len() as u32;
    }
    let s = &sig[0];
    let req = if s.optional { 0 } else { 1 };
    if obs.is_empty() {
        return req + errors(obs, &sig[1..]);
    }
    let o = &obs[0];
    if o.name == s.name && o.value == s.value {
        errors(&obs[1..], &sig[1..])
    } else if o.name == s.name {
        req + errors(&obs[1..], &sig[1..])
    } else {
        req + errors(obs, &sig[1..])
    }
}
struct Probe;
impl HttpDistance for Probe {
    fn get_version(&self) -> Version { Version::V11 }
    fn get_horder(&self) -> &[Header] { &[] }
    fn get_habsent(&self) -> &[Header] { &[] }
    fn get_expsw(&self) -> &str { "" }
}
#[kani::proof]
#[kani::unwind(8)]
fn c12_header_bounded() {
    let obs = any_list(3);
    let sig = any_list(3);
    let e = errors(&obs, &sig);
    let expect = if e <= 2 { Some(0) } else if e <= 5 { Some(1) } else if e <= 8 { Some(2) } else if e <= 11 { Some(3) } else { None };
    assert!(<Probe as HttpDistance>::distance_header(&obs, &sig) == expect);
}
