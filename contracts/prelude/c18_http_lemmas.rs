// ---- C18 (HTTP pool): the worker is a function of the connection identity alone.
/// identity of a well-formed TCP frame: addresses and ports as they appear on the wire
pub struct FlowId { pub v6: bool, pub src: Seq<u8>, pub dst: Seq<u8>, pub sport: Seq<u8>, pub dport: Seq<u8> }

/// A frame is "flow-bearing" when it is Ethernet- or raw-framed IPv4/IPv6 carrying TCP with the
/// first four bytes of the TCP header present; its identity is read at the wire offsets.
pub open spec fn flow_of(p: Seq<u8>) -> Option<FlowId> {
    let s = ip_start(p);
    if p.len() < s + 40 { None } else {
        let ip = p.subrange(s, p.len() as int);
        let v = (ip[0] >> 4) & 0x0F;
        if v == 4 && ip[9] == 6 && ip.len() >= ((ip[0] & 0x0F) as int) * 4 + 4 {
            let t = ((ip[0] & 0x0F) as int) * 4;
            Some(FlowId { v6: false, src: ip.subrange(12, 16), dst: ip.subrange(16, 20), sport: port_enc(ip[t], ip[t + 1]), dport: port_enc(ip[t + 2], ip[t + 3]) })
        } else if v == 6 && ip[6] == 6 && ip.len() >= 44 {
            Some(FlowId { v6: true, src: ip.subrange(8, 24), dst: ip.subrange(24, 40), sport: port_enc(ip[40], ip[41]), dport: port_enc(ip[42], ip[43]) })
        } else { None }
    }
}
pub proof fn lemma_c18_http_worker_from_identity(p: Seq<u8>, n: usize)
    requires flow_of(p).is_some(),
    ensures
        fed_frame(p) == canon(flow_of(p).unwrap().src, flow_of(p).unwrap().sport[0], flow_of(p).unwrap().sport[1],
                              flow_of(p).unwrap().dst, flow_of(p).unwrap().dport[0], flow_of(p).unwrap().dport[1]),
{
}
/// two frames of the same connection direction go to the same worker, whatever else differs
/// (payload, flags, lengths, other header fields, link framing)
pub proof fn lemma_c18_http_same_identity_same_worker(p: Seq<u8>, q: Seq<u8>, n: usize)
    requires
        flow_of(p).is_some(), flow_of(q).is_some(),
        flow_of(p).unwrap().src == flow_of(q).unwrap().src, flow_of(p).unwrap().dst == flow_of(q).unwrap().dst,
        flow_of(p).unwrap().sport == flow_of(q).unwrap().sport, flow_of(p).unwrap().dport == flow_of(q).unwrap().dport,
    ensures spec_worker(fed_frame(p), n) == spec_worker(fed_frame(q), n),
{
    lemma_c18_http_worker_from_identity(p, n);
    lemma_c18_http_worker_from_identity(q, n);
}
pub proof fn lemma_c18_worker_in_range(fed: Seq<Seq<u8>>, n: usize)
    requires n > 0,
    ensures spec_worker(fed, n) < n,
{
}

// ---- direction symmetry
pub proof fn lemma_ip_after_antisym(a: Seq<u8>, b: Seq<u8>, i: int)
    requires a.len() == b.len(), 0 <= i <= a.len(),
    ensures
        ip_after(a, b, i) is Some ==> ip_after(b, a, i) == Some(!ip_after(a, b, i).unwrap()),
        ip_after(a, b, i) is None ==> ip_after(b, a, i) is None && a.subrange(i, a.len() as int) =~= b.subrange(i, b.len() as int),
    decreases a.len() - i,
{
    if i < a.len() {
        lemma_ip_after_antisym(a, b, i + 1);
        if a[i] == b[i] {
            if ip_after(a, b, i) is None {
                let sa = a.subrange(i, a.len() as int);
                let sb = b.subrange(i, b.len() as int);
                assert forall|k: int| 0 <= k < sa.len() implies sa[k] == sb[k] by {
                    if k > 0 {
                        assert(sa[k] == a.subrange(i + 1, a.len() as int)[k - 1]);
                        assert(sb[k] == b.subrange(i + 1, b.len() as int)[k - 1]);
                    }
                }
            }
        }
    }
}
pub proof fn lemma_canon_symmetric(a: Seq<u8>, ah: u8, al: u8, b: Seq<u8>, bh: u8, bl: u8)
    requires a.len() == b.len(),
    ensures canon(a, ah, al, b, bh, bl) == canon(b, bh, bl, a, ah, al),
{
    lemma_ip_after_antisym(a, b, 0);
    if ip_after(a, b, 0) is None {
        assert(a =~= a.subrange(0, a.len() as int));
        assert(b =~= b.subrange(0, b.len() as int));
        if spec_be16(ah, al) == spec_be16(bh, bl) {
            assert(ah == bh && al == bl);
        }
    }
}
/// C18: the request and the response direction of one connection select the same worker
pub proof fn lemma_c18_http_direction_symmetry(p: Seq<u8>, q: Seq<u8>, n: usize)
    requires
        flow_of(p).is_some(), flow_of(q).is_some(),
        flow_of(p).unwrap().src == flow_of(q).unwrap().dst, flow_of(p).unwrap().dst == flow_of(q).unwrap().src,
        flow_of(p).unwrap().sport == flow_of(q).unwrap().dport, flow_of(p).unwrap().dport == flow_of(q).unwrap().sport,
        flow_of(p).unwrap().src.len() == flow_of(p).unwrap().dst.len(),
    ensures spec_worker(fed_frame(p), n) == spec_worker(fed_frame(q), n),
{
    lemma_c18_http_worker_from_identity(p, n);
    lemma_c18_http_worker_from_identity(q, n);
    let f = flow_of(p).unwrap();
    lemma_canon_symmetric(f.src, f.sport[0], f.sport[1], f.dst, f.dport[0], f.dport[1]);
}
