pub open spec fn is_prefix(pre: Seq<u8>, s: Seq<u8>) -> bool { pre.len() <= s.len() && s.subrange(0, pre.len() as int) =~= pre }
pub open spec fn spec_preface() -> Seq<u8> { seq![80u8, 82u8, 73u8, 32u8, 42u8, 32u8, 72u8, 84u8, 84u8, 80u8, 47u8, 50u8, 46u8, 48u8, 13u8, 10u8, 13u8, 10u8, 83u8, 77u8, 13u8, 10u8, 13u8, 10u8] }  // RFC 7540 3.5: "PRI * HTTP/2.0\\r\\n\\r\\nSM\\r\\n\\r\\n"
/// a complete HEADERS frame (type 1, stream id > 0) is reached by walking complete frames
pub open spec fn spec_has_headers_frame(d: Seq<u8>) -> bool
    decreases d.len()
{
    if d.len() < 9 { false }
    else {
        let l = spec_be32(0, d[0], d[1], d[2]);
        if d.len() < 9 + l { false }
        else if d[3] == 1 && ((spec_be32(d[5], d[6], d[7], d[8]) as u32) & 0x7FFF_FFFFu32) > 0 { true }
        else { spec_has_headers_frame(d.subrange(9 + l, d.len() as int)) }
    }
}
pub open spec fn crlfcrlf_at(d: Seq<u8>, i: int) -> bool {
    0 <= i && i + 3 < d.len() && d[i] == 13 && d[i + 1] == 10 && d[i + 2] == 13 && d[i + 3] == 10
}
