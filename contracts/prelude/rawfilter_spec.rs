// ---- what the raw filter extracts, as a function of the frame bytes
pub open spec fn w16(p: Seq<u8>, i: int) -> u16 { spec_be16(p[i], p[i + 1]) as u16 }
pub open spec fn q_v4(p: Seq<u8>) -> Option<(IpAddr, IpAddr, u16, u16)> {
    if p.len() < 20 || p[9] != 6 { None }
    else {
        let ihl = if (p[0] & 0x0F) < 5 { 5int } else { (p[0] & 0x0F) as int };
        let t = ihl * 4;
        if p.len() < t + 4 { None }
        else { Some((IpAddr::V4(spec_v4(p[12], p[13], p[14], p[15])), IpAddr::V4(spec_v4(p[16], p[17], p[18], p[19])), w16(p, t), w16(p, t + 2))) }
    }
}
pub open spec fn q_v6(p: Seq<u8>) -> Option<(IpAddr, IpAddr, u16, u16)> {
    if p.len() < 40 || p[6] != 6 || p.len() < 44 { None }
    else {
        Some((IpAddr::V6(spec_v6(w16(p, 8), w16(p, 10), w16(p, 12), w16(p, 14), w16(p, 16), w16(p, 18), w16(p, 20), w16(p, 22))),
              IpAddr::V6(spec_v6(w16(p, 24), w16(p, 26), w16(p, 28), w16(p, 30), w16(p, 32), w16(p, 34), w16(p, 36), w16(p, 38))),
              w16(p, 40), w16(p, 42)))
    }
}
pub open spec fn q_eth(p: Seq<u8>) -> Option<(IpAddr, IpAddr, u16, u16)> {
    if p.len() < 14 { None }
    else if p[12] == 0x08 && p[13] == 0x00 { q_v4(p.subrange(14, p.len() as int)) }
    else if p[12] == 0x86 && p[13] == 0xDD { q_v6(p.subrange(14, p.len() as int)) }
    else { None }
}
pub open spec fn q_raw(p: Seq<u8>) -> Option<(IpAddr, IpAddr, u16, u16)> {
    if p.len() == 0 { None }
    else if p[0] >> 4 == 4 { q_v4(p) } else if p[0] >> 4 == 6 { q_v6(p) } else { None }
}
pub open spec fn q_null(p: Seq<u8>) -> Option<(IpAddr, IpAddr, u16, u16)> {
    if p.len() < 4 { None }
    else if p[0] == 0x1e && p[1] == 0x00 {
        if p.len() < 5 { None }
        else if p[4] >> 4 == 4 { q_v4(p.subrange(4, p.len() as int)) }
        else if p[4] >> 4 == 6 { q_v6(p.subrange(4, p.len() as int)) }
        else { None }
    }
    else if p[0] == 2 && p[1] == 0 && p[2] == 0 && p[3] == 0 { q_v4(p.subrange(4, p.len() as int)) }
    else if p[0] == 28 && p[1] == 0 && p[2] == 0 && p[3] == 0 { q_v6(p.subrange(4, p.len() as int)) }
    else { None }
}
/// strategies in the analyzer's order: Ethernet, raw IP, loopback
pub open spec fn q_info(p: Seq<u8>) -> Option<(IpAddr, IpAddr, u16, u16)> {
    if q_eth(p) is Some { q_eth(p) } else if q_raw(p) is Some { q_raw(p) } else { q_null(p) }
}
