// ---- std DefaultHasher as an abstract deterministic machine: its result is a function of the
// sequence of values fed to it (ASSUMED CONTRACT on std: DefaultHasher::new() has fixed keys).
// vstd already models DefaultHasher: view `h@ : Seq<Seq<u8>>` (the values written so far),
// `DefaultHasher::new()` has the empty view, `finish()` returns `DefaultHasher::spec_finish(h@)`.
pub open spec fn spec_finish(fed: Seq<Seq<u8>>) -> u64 { DefaultHasher::spec_finish(fed) }

pub trait VxHashable {
    spec fn enc(&self) -> Seq<u8>;
}
impl<'a> VxHashable for &'a [u8] {
    open spec fn enc(&self) -> Seq<u8> { self@ }
}
impl VxHashable for u16 {
    open spec fn enc(&self) -> Seq<u8> { seq![(*self / 256) as u8, (*self % 256) as u8] }
}
// rule R10: `X.hash(&mut hasher)` through a trusted wrapper performing exactly that call
#[verifier::external_body]
pub fn vx_hash<T: VxHashable + Hash>(x: &T, h: &mut DefaultHasher)
    ensures final(h)@ == old(h)@.push(x.enc()),
{ x.hash(h) }

pub open spec fn spec_worker(fed: Seq<Seq<u8>>, n: usize) -> usize {
    if n == 0 { 0 } else { ((spec_finish(fed) as usize) % n) as usize }
}
