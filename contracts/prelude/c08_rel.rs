// ---- C08 as a RELATION: what the property fixes about one add_bytes call, and nothing more.
// (Unit c11_reader pins the buffer policy exactly; here the corners the property does not speak
// about — what is retained after a non-handshake record, an error or a non-ClientHello record — are
// left open, so that an edit which only changes those corners does not fail C08.)
pub enum Out { NoneYet, Got(Signature), Fail }
pub open spec fn out_of(res: Result<Option<Signature>, HuginnNetTlsError>) -> Out {
    match res { Ok(None) => Out::NoneYet, Ok(Some(s)) => Out::Got(s), Err(_) => Out::Fail }
}
pub open spec fn step_ok(s: RState, data: Seq<u8>, s2: RState, out: Out) -> bool {
    if s.done { s2.done && s2.buf =~= s.buf && out is NoneYet } else {
        let b = s.buf + data;
        if b.len() < 5 { s2.buf =~= b && !s2.done && out is NoneYet }
        else if b[0] != 0x16 { !s2.done && out is NoneYet }
        else if b.len() < rec_needed(b) { s2.buf =~= b && !s2.done && out is NoneYet }
        else if rec_needed(b) > 65536 { !s2.done && out is Fail }
        else {
            match spec_parse(b.subrange(0, rec_needed(b))) {
                Ok(Some(sig)) => s2.done && out == Out::Got(sig),
                Ok(None) => !s2.done && out is NoneYet,
                Err(e) => !s2.done && out is Fail,
            }
        }
    }
}
