// ---- what the HTTP dispatcher feeds to the hasher, as a function of the frame
pub open spec fn ip_start(p: Seq<u8>) -> int {
    if p.len() > 14 && ((p[12] == 0x08 && p[13] == 0x00) || (p[12] == 0x86 && p[13] == 0xDD)) { 14 } else { 0 }
}
pub open spec fn port_enc(hi: u8, lo: u8) -> Seq<u8> { seq![hi, lo] }
/// first differing address byte decides; `None` when the common prefix is equal
pub open spec fn ip_after(a: Seq<u8>, b: Seq<u8>, i: int) -> Option<bool>
    decreases a.len() - i
{
    if i < 0 || i >= a.len() || i >= b.len() { None }
    else if a[i] != b[i] { Some(a[i] > b[i]) }
    else { ip_after(a, b, i + 1) }
}
/// endpoint (a, ap) sorts after endpoint (b, bp): address bytes first, then port
pub open spec fn ep_after(a: Seq<u8>, ap: int, b: Seq<u8>, bp: int) -> bool {
    match ip_after(a, b, 0) { Some(x) => x, None => ap > bp }
}
/// the two endpoints of a connection in canonical order, as fed to the hasher
pub open spec fn canon(a: Seq<u8>, ap_hi: u8, ap_lo: u8, b: Seq<u8>, bp_hi: u8, bp_lo: u8) -> Seq<Seq<u8>> {
    if ep_after(a, spec_be16(ap_hi, ap_lo), b, spec_be16(bp_hi, bp_lo)) { seq![b, a, port_enc(bp_hi, bp_lo), port_enc(ap_hi, ap_lo)] }
    else { seq![a, b, port_enc(ap_hi, ap_lo), port_enc(bp_hi, bp_lo)] }
}
/// IPv4 packet `ip` (starting at the IP header)
pub open spec fn fed_v4(ip: Seq<u8>) -> Seq<Seq<u8>> {
    if ip.len() < 20 { seq![ip] }
    else if ip[9] != 6 { seq![ip.subrange(12, 16)] }
    else {
        let t = ((ip[0] & 0x0F) as int) * 4;
        if ip.len() < t + 4 { seq![ip.subrange(12, 16)] }
        else { canon(ip.subrange(12, 16), ip[t], ip[t + 1], ip.subrange(16, 20), ip[t + 2], ip[t + 3]) }
    }
}
pub open spec fn fed_v6(ip: Seq<u8>) -> Seq<Seq<u8>> {
    if ip.len() < 40 { seq![ip] }
    else if ip[6] != 6 || ip.len() < 44 { seq![ip.subrange(8, 24)] }
    else { canon(ip.subrange(8, 24), ip[40], ip[41], ip.subrange(24, 40), ip[42], ip[43]) }
}
pub open spec fn fed_frame(p: Seq<u8>) -> Seq<Seq<u8>> {
    let s = ip_start(p);
    if p.len() < s + 40 { seq![p] }
    else {
        let ip = p.subrange(s, p.len() as int);
        let v = (ip[0] >> 4) & 0x0F;
        if v == 4 { fed_v4(ip) } else if v == 6 { fed_v6(ip) } else { seq![p] }
    }
}
