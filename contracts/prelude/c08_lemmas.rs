// ---- C08.seg: segmentation invariance of the reader, as a lemma over reader_step
// (add_bytes refines reader_step, see its contract above; the lemma is discharged by induction).
pub open spec fn concat_to(segs: Seq<Seq<u8>>, k: int) -> Seq<u8>
    decreases k
{
    if k <= 0 { Seq::<u8>::empty() } else { concat_to(segs, k - 1) + segs[k - 1] }
}
pub open spec fn fresh() -> RState { RState { buf: Seq::<u8>::empty(), done: false } }
/// state of a fresh reader after the first k segments
pub open spec fn run_state(segs: Seq<Seq<u8>>, k: int) -> RState
    decreases k
{
    if k <= 0 { fresh() } else { reader_step(run_state(segs, k - 1), segs[k - 1]).0 }
}
/// what the k-th call (1-based) reports
pub open spec fn run_out(segs: Seq<Seq<u8>>, k: int) -> ROut {
    reader_step(run_state(segs, k - 1), segs[k - 1]).1
}
/// segment c (1-based) is the one that completes a record of rlen bytes
pub open spec fn completes(segs: Seq<Seq<u8>>, rlen: int, c: int) -> bool {
    1 <= c <= segs.len() && concat_to(segs, c).len() >= rlen && concat_to(segs, c - 1).len() < rlen
}
pub open spec fn is_record(r: Seq<u8>) -> bool {
    r.len() >= 5 && r[0] == 0x16 && r.len() == rec_needed(r) && r.len() <= 65536
}

pub proof fn lemma_concat_len_mono(segs: Seq<Seq<u8>>, a: int, b: int)
    requires 0 <= a <= b <= segs.len(),
    ensures concat_to(segs, a).len() <= concat_to(segs, b).len(),
            concat_to(segs, a) =~= concat_to(segs, b).subrange(0, concat_to(segs, a).len() as int),
    decreases b - a,
{
    if a < b {
        lemma_concat_len_mono(segs, a, b - 1);
    }
}

/// Inductive invariant: before the record is complete the reader holds exactly the bytes seen
/// so far and has reported nothing; from the completing segment on it is done.
pub proof fn lemma_run(segs: Seq<Seq<u8>>, r: Seq<u8>, tail: Seq<u8>, sig: Signature, k: int)
    requires
        is_record(r),
        spec_parse(r) == Ok::<Option<Signature>, HuginnNetTlsError>(Some(sig)),
        concat_to(segs, segs.len() as int) =~= r + tail,
        0 <= k <= segs.len(),
    ensures
        concat_to(segs, k).len() < r.len() ==> run_state(segs, k) == (RState { buf: concat_to(segs, k), done: false }),
        concat_to(segs, k).len() >= r.len() ==> run_state(segs, k).done,
        k >= 1 ==> run_out(segs, k) == (
            if completes(segs, r.len() as int, k) { ROut::Got(sig) } else { ROut::NoneYet }),
    decreases k,
{
    if k >= 1 {
        lemma_run(segs, r, tail, sig, k - 1);
        lemma_concat_len_mono(segs, k - 1, k);
        lemma_concat_len_mono(segs, k, segs.len() as int);
        let prev = concat_to(segs, k - 1);
        let cur = concat_to(segs, k);
        let all = concat_to(segs, segs.len() as int);
        if prev.len() < r.len() {
            // reader holds prev, not done; cur = prev + segs[k-1] is a prefix of r + tail
            assert(run_state(segs, k - 1) == (RState { buf: prev, done: false }));
            assert(cur =~= all.subrange(0, cur.len() as int));
            if cur.len() >= 5 {
                assert(cur[0] == r[0] && cur[3] == r[3] && cur[4] == r[4]);
                assert(rec_needed(cur) == r.len());
                if cur.len() >= r.len() {
                    assert(cur.subrange(0, rec_needed(cur)) =~= r);
                }
            }
        }
    }
}

/// C08: for every record R (header 0x16, declared length, <= 64 KiB) that parses to `sig`, every
/// tail and every division of R ++ tail into segments: exactly one segment reports, it is the one
/// completing the record, and it reports `sig`; all other segments report nothing.
pub proof fn lemma_c08_segmentation(segs: Seq<Seq<u8>>, r: Seq<u8>, tail: Seq<u8>, sig: Signature)
    requires
        is_record(r),
        spec_parse(r) == Ok::<Option<Signature>, HuginnNetTlsError>(Some(sig)),
        concat_to(segs, segs.len() as int) =~= r + tail,
    ensures
        forall|k: int| 1 <= k <= segs.len() ==> #[trigger] run_out(segs, k) == (
            if completes(segs, r.len() as int, k) { ROut::Got(sig) } else { ROut::NoneYet }),
        // the completing segment exists and is unique
        exists|c: int| #[trigger] completes(segs, r.len() as int, c),
{
    assert forall|k: int| 1 <= k <= segs.len() implies #[trigger] run_out(segs, k) == (
            if completes(segs, r.len() as int, k) { ROut::Got(sig) } else { ROut::NoneYet }) by {
        lemma_run(segs, r, tail, sig, k);
    }
    lemma_first_crossing(segs, r.len() as int, segs.len() as int);
}
pub proof fn lemma_first_crossing(segs: Seq<Seq<u8>>, rlen: int, n: int)
    requires 0 <= n <= segs.len(), rlen >= 1, concat_to(segs, n).len() >= rlen,
    ensures exists|c: int| c <= n && #[trigger] completes(segs, rlen, c),
    decreases n,
{
    if n == 0 {
        assert(concat_to(segs, 0).len() == 0);
    } else if concat_to(segs, n - 1).len() >= rlen {
        lemma_first_crossing(segs, rlen, n - 1);
        let c = choose|c: int| c <= n - 1 && #[trigger] completes(segs, rlen, c);
        assert(c <= n && completes(segs, rlen, c));
    } else {
        assert(completes(segs, rlen, n));
    }
}
/// single-segment delivery reports the same signature (the reference the property compares with)
pub proof fn lemma_c08_single_segment(r: Seq<u8>, tail: Seq<u8>, sig: Signature)
    requires is_record(r), spec_parse(r) == Ok::<Option<Signature>, HuginnNetTlsError>(Some(sig)),
    ensures reader_step(fresh(), r + tail).1 == ROut::Got(sig),
{
    let b = Seq::<u8>::empty() + (r + tail);
    assert(b =~= r + tail);
    assert(b[0] == r[0] && b[3] == r[3] && b[4] == r[4]);
    assert(b.subrange(0, rec_needed(b)) =~= r);
}
/// records that are not a ClientHello (parser says Ok(None)) produce no result and reset the reader
pub proof fn lemma_c08_not_client_hello(r: Seq<u8>)
    requires is_record(r), spec_parse(r) == Ok::<Option<Signature>, HuginnNetTlsError>(None),
    ensures reader_step(fresh(), r) == (fresh(), ROut::NoneYet),
{
    let b = Seq::<u8>::empty() + r;
    assert(b =~= r);
    assert(b.subrange(0, rec_needed(b)) =~= r);
}
/// vacuity guard: the hypotheses are satisfiable (a 5-byte empty handshake record is a record)
pub proof fn lemma_c08_witness()
    ensures is_record(seq![0x16u8, 0x03u8, 0x01u8, 0x00u8, 0x00u8]),
{
}

/// C01 (instance not poisoned): whatever a reader that is not done has been fed, once it reports an
/// error or a non-ClientHello record it is back in the fresh state, so the next record is analysed
/// exactly as by a fresh reader
pub proof fn lemma_c01_reader_recovers(s: RState, data: Seq<u8>)
    requires !s.done,
    ensures
        (reader_step(s, data).1 is ParseErr || reader_step(s, data).1 is TooLarge) ==> reader_step(s, data).0 == fresh(),
{
}
