pub struct FlowId { pub v6: bool, pub src: Seq<u8>, pub dst: Seq<u8>, pub sport: Seq<u8>, pub dport: Seq<u8> }
pub open spec fn flow_of(p: Seq<u8>) -> Option<FlowId> {
    let s = ip_start(p);
    if p.len() < s + 40 { None } else {
        let ip = p.subrange(s, p.len() as int);
        let v = (ip[0] >> 4) & 0x0F;
        if v == 4 && ip[9] == 6 && ip.len() >= ((ip[0] & 0x0F) as int) * 4 + 4 {
            let t = ((ip[0] & 0x0F) as int) * 4;
            Some(FlowId { v6: false, src: ip.subrange(12, 16), dst: ip.subrange(16, 20), sport: port_enc(ip[t], ip[t + 1]), dport: port_enc(ip[t + 2], ip[t + 3]) })
        } else if v == 6 && ip[6] == 6 && ip.len() >= 44 {
            Some(FlowId { v6: true, src: ip.subrange(8, 24), dst: ip.subrange(24, 40), sport: port_enc(ip[40], ip[41]), dport: port_enc(ip[42], ip[43]) })
        } else { None }
    }
}
/// the TLS pool keeps a directed connection together: a flow-bearing frame is never discarded and
/// its worker depends on the directed 4-tuple alone
pub proof fn lemma_c18_tls_worker_from_identity(p: Seq<u8>, n: usize)
    requires flow_of(p).is_some(),
    ensures
        tls_fed_frame(p) == Some(seq![flow_of(p).unwrap().src, flow_of(p).unwrap().dst, flow_of(p).unwrap().sport, flow_of(p).unwrap().dport]),
{
}
pub proof fn lemma_c18_tls_same_identity_same_worker(p: Seq<u8>, q: Seq<u8>, n: usize)
    requires
        flow_of(p).is_some(), flow_of(q).is_some(),
        flow_of(p).unwrap().src == flow_of(q).unwrap().src, flow_of(p).unwrap().dst == flow_of(q).unwrap().dst,
        flow_of(p).unwrap().sport == flow_of(q).unwrap().sport, flow_of(p).unwrap().dport == flow_of(q).unwrap().dport,
    ensures tls_worker(tls_fed_frame(p), n).is_some(), tls_worker(tls_fed_frame(p), n) == tls_worker(tls_fed_frame(q), n),
{
    lemma_c18_tls_worker_from_identity(p, n);
    lemma_c18_tls_worker_from_identity(q, n);
}
