// ---- C11 (size half): representation invariant of the ClientHello reader
/// not yet done => the buffer is empty-ish (< 5 bytes) or an incomplete handshake record
pub open spec fn reader_inv(s: RState) -> bool {
    s.done || s.buf.len() < 5 || (s.buf[0] == 0x16 && s.buf.len() < rec_needed(s.buf))
}
