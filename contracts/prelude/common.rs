// Target assumption: 64-bit usize (the sandbox and the project's supported targets).
global size_of usize == 8;
// Trusted wrappers for rule R2 (Verus cannot name the const-generic array
// length in an assume_specification for {u16,u32}::from_be_bytes).
pub open spec fn spec_be16(a: u8, b: u8) -> int { a as int * 256 + b as int }
pub open spec fn spec_be32(a: u8, b: u8, c: u8, d: u8) -> int {
    a as int * 16777216 + b as int * 65536 + c as int * 256 + d as int
}
#[verifier::external_body]
pub fn vx_u16_from_be_bytes(b: [u8; 2]) -> (r: u16)
    ensures r as int == spec_be16(b[0], b[1]),
{ u16::from_be_bytes(b) }
#[verifier::external_body]
pub fn vx_u32_from_be_bytes(b: [u8; 4]) -> (r: u32)
    ensures r as int == spec_be32(b[0], b[1], b[2], b[3]),
{ u32::from_be_bytes(b) }
// from_ne_bytes: the sandbox target (x86_64) is little-endian.
#[verifier::external_body]
pub fn vx_u32_from_ne_bytes(b: [u8; 4]) -> (r: u32)
    ensures r as int == spec_be32(b[3], b[2], b[1], b[0]),
{ u32::from_ne_bytes(b) }
