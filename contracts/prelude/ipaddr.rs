// ---- std::net address types as opaque external types with uninterpreted constructors
#[verifier::external_type_specification]
#[verifier::external_body]
pub struct ExIpv4Addr(std::net::Ipv4Addr);
#[verifier::external_type_specification]
#[verifier::external_body]
pub struct ExIpv6Addr(std::net::Ipv6Addr);
#[verifier::external_type_specification]
pub struct ExIpAddr(std::net::IpAddr);

pub uninterp spec fn spec_v4(a: u8, b: u8, c: u8, d: u8) -> Ipv4Addr;
pub uninterp spec fn spec_v6(a: u16, b: u16, c: u16, d: u16, e: u16, f: u16, g: u16, h: u16) -> Ipv6Addr;
pub assume_specification[ Ipv4Addr::new ](a: u8, b: u8, c: u8, d: u8) -> (r: Ipv4Addr)
    ensures r == spec_v4(a, b, c, d);
pub assume_specification[ Ipv6Addr::new ](a: u16, b: u16, c: u16, d: u16, e: u16, f: u16, g: u16, h: u16) -> (r: Ipv6Addr)
    ensures r == spec_v6(a, b, c, d, e, f, g, h);
