/// the invariant bounds the memory a tracked connection can hold before completion
pub proof fn lemma_c11_inv_bounds(s: RState)
    requires reader_inv(s), !s.done,
    ensures s.buf.len() < 65536 + 5,
{
}
pub proof fn lemma_c11_witness()
    ensures reader_inv(RState { buf: seq![0x16u8, 0x03u8, 0x01u8, 0x01u8, 0x00u8, 0x01u8], done: false }),
{
}

pub open spec fn fresh() -> RState { RState { buf: Seq::<u8>::empty(), done: false } }
/// C01 (instance not poisoned): whatever a reader that is not done has been fed, once it reports an
/// error it is back in the fresh state, so the next record is analysed exactly as by a fresh reader
pub proof fn lemma_c01_reader_recovers(s: RState, data: Seq<u8>)
    requires !s.done,
    ensures
        (reader_step(s, data).1 is ParseErr || reader_step(s, data).1 is TooLarge) ==> reader_step(s, data).0 == fresh(),
{
}
