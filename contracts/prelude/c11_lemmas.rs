/// the invariant bounds the memory a tracked connection can hold before completion
pub proof fn lemma_c11_inv_bounds(s: RState)
    requires reader_inv(s), !s.done,
    ensures s.buf.len() < 65536 + 5,
{
}
pub proof fn lemma_c11_witness()
    ensures reader_inv(RState { buf: seq![0x16u8, 0x03u8, 0x01u8, 0x01u8, 0x00u8, 0x01u8], done: false }),
{
}
