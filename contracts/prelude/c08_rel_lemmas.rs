// ---- C08.seg over the relation: EVERY run of a reader that obeys step_ok reports exactly once
pub open spec fn concat_to(segs: Seq<Seq<u8>>, k: int) -> Seq<u8>
    decreases k
{
    if k <= 0 { Seq::<u8>::empty() } else { concat_to(segs, k - 1) + segs[k - 1] }
}
pub open spec fn fresh() -> RState { RState { buf: Seq::<u8>::empty(), done: false } }
/// states[k] is the reader after the first k segments, outs[k] what call k+1 reported
pub open spec fn run_ok(segs: Seq<Seq<u8>>, states: Seq<RState>, outs: Seq<Out>) -> bool {
    states.len() == segs.len() + 1 && outs.len() == segs.len() && states[0] == fresh()
    && forall|k: int| 0 <= k < segs.len() ==> step_ok(#[trigger] states[k], segs[k], states[k + 1], outs[k])
}
pub open spec fn completes(segs: Seq<Seq<u8>>, rlen: int, c: int) -> bool {
    1 <= c <= segs.len() && concat_to(segs, c).len() >= rlen && concat_to(segs, c - 1).len() < rlen
}
pub open spec fn is_record(r: Seq<u8>) -> bool {
    r.len() >= 5 && r[0] == 0x16 && r.len() == rec_needed(r) && r.len() <= 65536
}
pub proof fn lemma_concat_len_mono(segs: Seq<Seq<u8>>, a: int, b: int)
    requires 0 <= a <= b <= segs.len(),
    ensures concat_to(segs, a).len() <= concat_to(segs, b).len(),
            concat_to(segs, a) =~= concat_to(segs, b).subrange(0, concat_to(segs, a).len() as int),
    decreases b - a,
{
    if a < b { lemma_concat_len_mono(segs, a, b - 1); }
}
pub proof fn lemma_run(segs: Seq<Seq<u8>>, states: Seq<RState>, outs: Seq<Out>, r: Seq<u8>, tail: Seq<u8>, sig: Signature, k: int)
    requires
        is_record(r),
        spec_parse(r) == Ok::<Option<Signature>, HuginnNetTlsError>(Some(sig)),
        concat_to(segs, segs.len() as int) =~= r + tail,
        run_ok(segs, states, outs),
        0 <= k <= segs.len(),
    ensures
        concat_to(segs, k).len() < r.len() ==> states[k].buf =~= concat_to(segs, k) && !states[k].done,
        concat_to(segs, k).len() >= r.len() ==> states[k].done,
        k >= 1 ==> outs[k - 1] == (if completes(segs, r.len() as int, k) { Out::Got(sig) } else { Out::NoneYet }),
    decreases k,
{
    if k >= 1 {
        lemma_run(segs, states, outs, r, tail, sig, k - 1);
        lemma_concat_len_mono(segs, k - 1, k);
        lemma_concat_len_mono(segs, k, segs.len() as int);
        let prev = concat_to(segs, k - 1);
        let cur = concat_to(segs, k);
        let all = concat_to(segs, segs.len() as int);
        assert(step_ok(states[k - 1], segs[k - 1], states[k], outs[k - 1]));
        if prev.len() < r.len() {
            let b = states[k - 1].buf + segs[k - 1];
            assert(b =~= cur);
            assert(cur =~= all.subrange(0, cur.len() as int));
            if cur.len() >= 5 {
                assert(cur[0] == r[0] && cur[3] == r[3] && cur[4] == r[4]);
                assert(rec_needed(cur) == r.len());
                if cur.len() >= r.len() {
                    assert(cur.subrange(0, rec_needed(cur)) =~= r);
                }
            }
        }
    }
}
/// C08: for every record R (header 0x16, declared length, <= 64 KiB) that parses to `sig`, every tail,
/// every division of R ++ tail into segments and EVERY reader behaviour allowed by step_ok: exactly
/// the segment completing the record reports, it reports `sig`, all other segments report nothing.
pub proof fn lemma_c08_segmentation(segs: Seq<Seq<u8>>, states: Seq<RState>, outs: Seq<Out>, r: Seq<u8>, tail: Seq<u8>, sig: Signature)
    requires
        is_record(r),
        spec_parse(r) == Ok::<Option<Signature>, HuginnNetTlsError>(Some(sig)),
        concat_to(segs, segs.len() as int) =~= r + tail,
        run_ok(segs, states, outs),
    ensures
        forall|k: int| 1 <= k <= segs.len() ==> #[trigger] outs[k - 1] == (
            if completes(segs, r.len() as int, k) { Out::Got(sig) } else { Out::NoneYet }),
        // the completing segment exists and is unique
        exists|c: int| #[trigger] completes(segs, r.len() as int, c),
{
    assert forall|k: int| 1 <= k <= segs.len() implies #[trigger] outs[k - 1] == (
            if completes(segs, r.len() as int, k) { Out::Got(sig) } else { Out::NoneYet }) by {
        lemma_run(segs, states, outs, r, tail, sig, k);
    }
    lemma_first_crossing(segs, r.len() as int, segs.len() as int);
}
pub proof fn lemma_first_crossing(segs: Seq<Seq<u8>>, rlen: int, n: int)
    requires 0 <= n <= segs.len(), rlen >= 1, concat_to(segs, n).len() >= rlen,
    ensures exists|c: int| c <= n && #[trigger] completes(segs, rlen, c),
    decreases n,
{
    if n == 0 {
        assert(concat_to(segs, 0).len() == 0);
    } else if concat_to(segs, n - 1).len() >= rlen {
        lemma_first_crossing(segs, rlen, n - 1);
        let c = choose|c: int| c <= n - 1 && #[trigger] completes(segs, rlen, c);
        assert(c <= n && completes(segs, rlen, c));
    } else {
        assert(completes(segs, rlen, n));
    }
}
/// single-segment delivery: the reference the property compares with
pub proof fn lemma_c08_single_segment(r: Seq<u8>, tail: Seq<u8>, sig: Signature, s2: RState, out: Out)
    requires is_record(r), spec_parse(r) == Ok::<Option<Signature>, HuginnNetTlsError>(Some(sig)), step_ok(fresh(), r + tail, s2, out),
    ensures out == Out::Got(sig),
{
    let b = Seq::<u8>::empty() + (r + tail);
    assert(b =~= r + tail);
    assert(b[0] == r[0] && b[3] == r[3] && b[4] == r[4]);
    assert(b.subrange(0, rec_needed(b)) =~= r);
}
/// records that are not a ClientHello produce no result
pub proof fn lemma_c08_not_client_hello(r: Seq<u8>, s2: RState, out: Out)
    requires is_record(r), spec_parse(r) == Ok::<Option<Signature>, HuginnNetTlsError>(None), step_ok(fresh(), r, s2, out),
    ensures out is NoneYet, !s2.done,
{
    let b = Seq::<u8>::empty() + r;
    assert(b =~= r);
    assert(b.subrange(0, rec_needed(b)) =~= r);
}
/// vacuity guards: the hypotheses are satisfiable
pub proof fn lemma_c08_witness()
    ensures is_record(seq![0x16u8, 0x03u8, 0x01u8, 0x00u8, 0x00u8]),
{
}
pub proof fn lemma_c08_run_witness()
    ensures run_ok(Seq::<Seq<u8>>::empty(), seq![fresh()], Seq::<Out>::empty()),
{
}
