// ---- C15: decoder agreement, for frames of every length.
// If the analyzer's decoder (parse_packet's selection, then pnet's accessors) reports endpoints for
// a frame, the raw filter's quick extraction (q_info: the proved result of extract_quick_info)
// reports exactly the same endpoints.
proof fn lemma_nibble(x: u8)
    ensures (x & 0xF0) >> 4 == x >> 4, (x >> 4) <= 15, (x & 0x0F) <= 15,
{
    assert((x & 0xF0) >> 4 == x >> 4) by (bit_vector);
    assert((x >> 4) <= 15) by (bit_vector);
    assert((x & 0x0F) <= 15) by (bit_vector);
}
proof fn lemma_v4_agree(d: Seq<u8>)
    ensures an_v4(d) is Some ==> q_v4(d) == an_v4(d),
{
    if an_v4(d) is Some {
        lemma_nibble(d[0]);
        let ihl = (d[0] & 0x0F) as int;
        let start = if ihl < 5 { 20int } else { ihl * 4 };
        let t = v4_payload(d);
        assert(t.len() >= 20);
        assert(d.len() > start);
        assert(t[0] == d[start] && t[1] == d[start + 1] && t[2] == d[start + 2] && t[3] == d[start + 3]);
    }
}
proof fn lemma_v6_agree(d: Seq<u8>)
    ensures an_v6(d) is Some ==> q_v6(d) == an_v6(d),
{
    if an_v6(d) is Some {
        let t = v6_payload(d);
        assert(t.len() >= 20);
        assert(t[0] == d[40] && t[1] == d[41] && t[2] == d[42] && t[3] == d[43]);
    }
}
pub proof fn lemma_c15_agree(p: Seq<u8>)
    ensures an_endpoints(p) is Some ==> q_info(p) == an_endpoints(p),
{
    if an_endpoints(p) is Some {
        if p.len() > 0 { lemma_nibble(p[0]); }
        if p.len() > 4 { lemma_nibble(p[4]); }
        if p.len() >= 14 { lemma_v4_agree(tail(p, 14)); lemma_v6_agree(tail(p, 14)); }
        lemma_v4_agree(p); lemma_v6_agree(p);
        if p.len() >= 4 { lemma_v4_agree(tail(p, 4)); lemma_v6_agree(tail(p, 4)); }
        if !(pp_eth(p) is No) {
            assert(q_eth(p) == an_endpoints(p));
        } else {
            assert(q_eth(p) is None);
            if !(pp_raw(p) is No) {
                assert(q_raw(p) == an_endpoints(p));
            } else {
                assert(q_raw(p) is None);
                assert(q_null(p) == an_endpoints(p));
            }
        }
    }
}
// the converse direction does not hold and is not claimed: the filter extracts endpoints from frames
// the analyzer drops (short TCP headers, total_length cutting the header) - it fails open there.
