// ---- C08 specification: the incremental ClientHello reader as a transition system.
pub struct RState { pub buf: Seq<u8>, pub done: bool }

// ext: parse_tls_client_hello (tls-parser underneath).  ASSUMED CONTRACT: its result is a
// function of exactly the byte sequence it is given (stateless, deterministic, total).
pub uninterp spec fn spec_parse(data: Seq<u8>) -> Result<Option<Signature>, HuginnNetTlsError>;
#[verifier::external_body]
pub fn parse_tls_client_hello(data: &[u8]) -> (r: Result<Option<Signature>, HuginnNetTlsError>)
    ensures r == spec_parse(data@),
{ unimplemented!() }

pub open spec fn rec_needed(b: Seq<u8>) -> int { spec_be16(b[3], b[4]) + 5 }
pub enum ROut { NoneYet, Got(Signature), ParseErr(HuginnNetTlsError), TooLarge }

// One add_bytes call, written from the property: append; wait for the 5-byte header of a
// handshake record (0x16); wait for 5+len bytes; refuse > 64 KiB; parse exactly that prefix;
// remember completion.  After completion nothing more is reported.
pub open spec fn reader_step(s: RState, data: Seq<u8>) -> (RState, ROut) {
    if s.done { (s, ROut::NoneYet) } else {
        let b = s.buf + data;
        if b.len() < 5 { (RState { buf: b, done: false }, ROut::NoneYet) }
        else if b[0] != 0x16 { (RState { buf: Seq::<u8>::empty(), done: false }, ROut::NoneYet) }  // not a handshake record: dropped
        else if b.len() < rec_needed(b) { (RState { buf: b, done: false }, ROut::NoneYet) }
        else if rec_needed(b) > 65536 { (RState { buf: Seq::<u8>::empty(), done: false }, ROut::TooLarge) }
        else {
            match spec_parse(b.subrange(0, rec_needed(b))) {
                Ok(Some(sig)) => (RState { buf: b.subrange(rec_needed(b), b.len() as int), done: true }, ROut::Got(sig)),
                Ok(None) => (RState { buf: Seq::<u8>::empty(), done: false }, ROut::NoneYet),
                Err(e) => (RState { buf: Seq::<u8>::empty(), done: false }, ROut::ParseErr(e)),  // unparsable record dropped
            }
        }
    }
}
// how the API value reports a step outcome
pub open spec fn res_matches(res: Result<Option<Signature>, HuginnNetTlsError>, out: ROut) -> bool {
    match out {
        ROut::NoneYet => res == Ok::<Option<Signature>, HuginnNetTlsError>(None),
        ROut::Got(sig) => res == Ok::<Option<Signature>, HuginnNetTlsError>(Some(sig)),
        ROut::ParseErr(e) => res == Err::<Option<Signature>, HuginnNetTlsError>(e),
        ROut::TooLarge => res.is_err(),
    }
}

// admission test of the packet-level analyzer: handshake record, version 0x0300..0x0304, >= 5 bytes
pub open spec fn spec_is_tls(p: Seq<u8>) -> bool {
    p.len() >= 5 && p[0] == 0x16 && 0x0300 <= spec_be16(p[1], p[2]) <= 0x0304
}

// rule R6: `X.drain(..N);` through a trusted wrapper performing exactly that call
#[verifier::external_body]
pub fn vx_vec_drain_to(v: &mut Vec<u8>, n: usize)
    requires n <= old(v)@.len(),
    ensures final(v)@ == old(v)@.subrange(n as int, old(v)@.len() as int),
{ v.drain(..n); }
