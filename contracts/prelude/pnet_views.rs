// ---- pnet's packet-view types: ASSUMED CONTRACTS ON A DEPENDENCY (pnet_packet 0.35).
// The repository's packet_parser.rs only ever calls the constructors `new` and
// `EthernetPacket::get_ethertype`.  Verus cannot read the pnet crate in single-file mode,
// so the view types are declared here with the one fact the parser depends on:
// `X::new(buf)` is `Some` exactly when `buf` holds the fixed header (14 / 20 / 40 bytes),
// and the view then refers to the very slice it was built over.  The field `bytes` is that
// slice.  Every `external_body` below is validated against the real pnet by the Kani
// harnesses c15_pnet_* (bounded by frame length) and is listed as trusted in the evidence.
pub struct EthernetPacket<'a> { pub bytes: &'a [u8] }
pub struct Ipv4Packet<'a> { pub bytes: &'a [u8] }
pub struct Ipv6Packet<'a> { pub bytes: &'a [u8] }
#[derive(PartialEq, Eq, Clone, Copy)]
pub struct EtherType(pub u16);
impl vstd::std_specs::cmp::PartialEqSpecImpl for EtherType {
    open spec fn obeys_eq_spec() -> bool { true }
    open spec fn eq_spec(&self, other: &EtherType) -> bool { self.0 == other.0 }
}
#[allow(non_snake_case)]
#[allow(non_upper_case_globals)]
pub mod EtherTypes {
    use super::EtherType;
    pub const Ipv4: EtherType = EtherType(0x0800);
    pub const Ipv6: EtherType = EtherType(0x86DD);
}
impl<'a> EthernetPacket<'a> {
    #[verifier::external_body]
    pub fn new(packet: &'a [u8]) -> (r: Option<EthernetPacket<'a>>)
        ensures (r is Some) == (packet@.len() >= 14), r is Some ==> r->0.bytes@ == packet@,
    { unimplemented!() }
    #[verifier::external_body]
    pub fn get_ethertype(&self) -> (r: EtherType)
        requires self.bytes@.len() >= 14,
        ensures r.0 as int == spec_be16(self.bytes@[12], self.bytes@[13]),
    { unimplemented!() }
}
impl<'a> Ipv4Packet<'a> {
    #[verifier::external_body]
    pub fn new(packet: &'a [u8]) -> (r: Option<Ipv4Packet<'a>>)
        ensures (r is Some) == (packet@.len() >= 20), r is Some ==> r->0.bytes@ == packet@,
    { unimplemented!() }
}
impl<'a> Ipv6Packet<'a> {
    #[verifier::external_body]
    pub fn new(packet: &'a [u8]) -> (r: Option<Ipv6Packet<'a>>)
        ensures (r is Some) == (packet@.len() >= 40), r is Some ==> r->0.bytes@ == packet@,
    { unimplemented!() }
}

// ---- which IP view the analyzer's parser selects, as a function of the frame bytes
pub enum PV { V4(Seq<u8>), V6(Seq<u8>), No }
// pv_of(IpPacket) -> PV is given per crate (pnet_pv_view.rs: the enum holds pnet views; pnet_pv_slice.rs: it holds the slices)
pub open spec fn pv_opt(r: Option<IpPacket>) -> PV {
    match r { Some(x) => pv_of(x), None => PV::No }
}
pub open spec fn tail(p: Seq<u8>, k: int) -> Seq<u8> { p.subrange(k, p.len() as int) }
pub open spec fn pp_eth(p: Seq<u8>) -> PV {
    if p.len() < 14 { PV::No }
    else if p[12] == 0x08 && p[13] == 0x00 && p.len() >= 34 { PV::V4(tail(p, 14)) }
    else if p[12] == 0x86 && p[13] == 0xDD && p.len() >= 54 { PV::V6(tail(p, 14)) }
    else { PV::No }
}
pub open spec fn pp_raw(p: Seq<u8>) -> PV {
    if p.len() < 20 { PV::No }
    else if p[0] >> 4 == 4 { PV::V4(p) }
    else if p[0] >> 4 == 6 && p.len() >= 40 { PV::V6(p) }
    else { PV::No }
}
pub open spec fn pp_null(p: Seq<u8>) -> PV {
    if p.len() < 24 || p[0] != 0x1e || p[1] != 0x00 { PV::No }
    else if p[4] >> 4 == 4 { PV::V4(tail(p, 4)) }
    else if p[4] >> 4 == 6 && p.len() >= 44 { PV::V6(tail(p, 4)) }
    else { PV::No }
}
/// strategies in parse_packet's order: Ethernet, raw IP, NULL datalink
pub open spec fn pp_all(p: Seq<u8>) -> PV {
    if !(pp_eth(p) is No) { pp_eth(p) } else if !(pp_raw(p) is No) { pp_raw(p) } else { pp_null(p) }
}
/// Some(result) <-> a strategy succeeded
pub open spec fn strat_ok(r: Option<IpPacket>, want: PV) -> bool {
    pv_opt(r) == want && (r is Some ==> !(r->0 is None))
}

// ---- the endpoints the analyzer reports for a selected IP view (pnet accessor semantics, assumed:
// get_source/get_destination read bytes 12..20 (v4) / 8..40 (v6); get_next_level_protocol is byte 9,
// get_next_header byte 6; payload() is [max(ihl,5)*4 .. min(that + (total_length -sat ihl*4), len)) for
// v4 and [40 .. min(40 + payload_length, len)) for v6, empty when the view is not longer than the start;
// TcpPacket::new(payload) needs 20 bytes; get_source/get_destination of it are its bytes 0..4)
pub open spec fn min_int(a: int, b: int) -> int { if a <= b { a } else { b } }
pub open spec fn v4_payload(d: Seq<u8>) -> Seq<u8> {
    let ihl = (d[0] & 0x0F) as int;
    let start = if ihl < 5 { 20int } else { ihl * 4 };
    let tl = spec_be16(d[2], d[3]);
    let plen = if tl >= ihl * 4 { tl - ihl * 4 } else { 0int };
    if d.len() <= start { Seq::empty() } else { d.subrange(start, min_int(start + plen, d.len() as int)) }
}
pub open spec fn v6_payload(d: Seq<u8>) -> Seq<u8> {
    let plen = spec_be16(d[4], d[5]);
    if d.len() <= 40 { Seq::empty() } else { d.subrange(40, min_int(40 + plen, d.len() as int)) }
}
pub open spec fn an_v4(d: Seq<u8>) -> Option<(IpAddr, IpAddr, u16, u16)> {
    let t = v4_payload(d);
    if d.len() < 20 || d[9] != 6 || t.len() < 20 { None }
    else { Some((IpAddr::V4(spec_v4(d[12], d[13], d[14], d[15])), IpAddr::V4(spec_v4(d[16], d[17], d[18], d[19])), w16(t, 0), w16(t, 2))) }
}
pub open spec fn an_v6(d: Seq<u8>) -> Option<(IpAddr, IpAddr, u16, u16)> {
    let t = v6_payload(d);
    if d.len() < 40 || d[6] != 6 || t.len() < 20 { None }
    else {
        Some((IpAddr::V6(spec_v6(w16(d, 8), w16(d, 10), w16(d, 12), w16(d, 14), w16(d, 16), w16(d, 18), w16(d, 20), w16(d, 22))),
              IpAddr::V6(spec_v6(w16(d, 24), w16(d, 26), w16(d, 28), w16(d, 30), w16(d, 32), w16(d, 34), w16(d, 36), w16(d, 38))),
              w16(t, 0), w16(t, 2)))
    }
}
pub open spec fn an_endpoints(p: Seq<u8>) -> Option<(IpAddr, IpAddr, u16, u16)> {
    match pp_all(p) { PV::V4(d) => an_v4(d), PV::V6(d) => an_v6(d), PV::No => None }
}
