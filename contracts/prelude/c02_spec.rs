// ---- C02: the selection rule of an exhaustive scan, as a spec function.
/// index (into the candidate list) of the first entry with the smallest distance among the
/// entries of the prefix [0, k) that accept the observation; None when none accepts it
pub open spec fn best_idx(dists: Seq<Option<u32>>, k: int) -> Option<int>
    decreases k
{
    if k <= 0 { None }
    else {
        let prev = best_idx(dists, k - 1);
        match dists[k - 1] {
            None => prev,
            Some(d) => match prev {
                None => Some(k - 1),
                Some(p) => if d < dists[p].unwrap() { Some(k - 1) } else { prev },
            },
        }
    }
}
pub proof fn lemma_best_idx_props(dists: Seq<Option<u32>>, k: int)
    requires 0 <= k <= dists.len(),
    ensures
        match best_idx(dists, k) {
            None => forall|j: int| 0 <= j < k ==> dists[j] is None,
            Some(p) => 0 <= p < k && dists[p] is Some
                // minimal among all accepted entries of the prefix
                && (forall|j: int| 0 <= j < k && dists[j] is Some ==> dists[p].unwrap() <= dists[j].unwrap())
                // first such entry in list order
                && (forall|j: int| 0 <= j < p && dists[j] is Some ==> dists[p].unwrap() < dists[j].unwrap()),
        },
    decreases k,
{
    if k > 0 {
        lemma_best_idx_props(dists, k - 1);
    }
}
