// IpPacket of the unified crate holds the IP slices themselves
pub open spec fn pv_of(r: IpPacket) -> PV {
    match r { IpPacket::Ipv4(v) => PV::V4(v@), IpPacket::Ipv6(v) => PV::V6(v@), IpPacket::None => PV::No }
}
