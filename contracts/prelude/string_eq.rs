// TRUSTED equality axiom Verus lacks: `String: PartialEq` is equality of the views
// (needed so that vstd's own `Option<T>`/`Vec<T>` PartialEq specs apply to `Option<String>`).
pub mod vx_axioms {
    use super::*;
    #[verifier::external_body]
    pub broadcast proof fn axiom_string_eq_spec(a: String, b: String)
        ensures
            #![trigger vstd::std_specs::cmp::PartialEqSpec::eq_spec(&a, &b)]
            <String as vstd::std_specs::cmp::PartialEqSpec>::obeys_eq_spec(),
            vstd::std_specs::cmp::PartialEqSpec::eq_spec(&a, &b) == (a@ == b@),
    {}
    #[verifier::external_body]
    pub broadcast proof fn axiom_string_obeys_eq()
        ensures #[trigger] <String as vstd::std_specs::cmp::PartialEqSpec>::obeys_eq_spec(),
    {}
}
broadcast use {vx_axioms::axiom_string_eq_spec, vx_axioms::axiom_string_obeys_eq};
