// ---- HTTP/2 framing (RFC 7540 section 4.1): 9-byte header = 24-bit length, type, flags, R + 31-bit stream id
pub struct FrameV { pub ty: u8, pub flags: u8, pub stream_id: u32, pub payload: Seq<u8>, pub length: u32 }

pub open spec fn spec_frame_type(b: u8) -> Http2FrameType {
    if b == 0 { Http2FrameType::Data } else if b == 1 { Http2FrameType::Headers } else if b == 2 { Http2FrameType::Priority }
    else if b == 3 { Http2FrameType::RstStream } else if b == 4 { Http2FrameType::Settings } else if b == 5 { Http2FrameType::PushPromise }
    else if b == 6 { Http2FrameType::Ping } else if b == 7 { Http2FrameType::GoAway } else if b == 8 { Http2FrameType::WindowUpdate }
    else if b == 9 { Http2FrameType::Continuation } else { Http2FrameType::Unknown(b) }
}
impl vstd::std_specs::convert::FromSpecImpl<u8> for Http2FrameType {
    open spec fn obeys_from_spec() -> bool { true }
    open spec fn from_spec(v: u8) -> Self { spec_frame_type(v) }
}
impl vstd::std_specs::cmp::PartialEqSpecImpl for Http2FrameType {
    open spec fn obeys_eq_spec() -> bool { true }
    open spec fn eq_spec(&self, other: &Self) -> bool { *self == *other }
}
pub open spec fn is_req_headers(f: Http2Frame) -> bool { f.stream_id > 0 && f.frame_type == Http2FrameType::Headers }
pub open spec fn h2_len(d: Seq<u8>) -> int { spec_be32(0, d[0], d[1], d[2]) }
pub open spec fn h2_stream(d: Seq<u8>) -> u32 { (spec_be32(d[5], d[6], d[7], d[8]) as u32) & 0x7FFF_FFFFu32 }  // reserved bit masked
pub open spec fn frame_ok(f: Http2Frame, d: Seq<u8>) -> bool {
    f.frame_type == spec_frame_type(d[3]) && f.flags == d[4] && f.stream_id == h2_stream(d)
    && f.length as int == h2_len(d) && f.payload@ =~= d.subrange(9, 9 + h2_len(d))
}
/// the list of complete frames at the start of `d`: stops at the first incomplete or oversized frame
pub open spec fn spec_split_count(d: Seq<u8>, max: int) -> nat
    decreases d.len()
{
    if d.len() < 9 || d.len() < 9 + h2_len(d) || h2_len(d) > max { 0 }
    else { 1 + spec_split_count(d.subrange(9 + h2_len(d), d.len() as int), max) }
}
/// offset of the k-th complete frame
pub open spec fn spec_frame_off(d: Seq<u8>, k: nat) -> int
    decreases k
{
    if k == 0 { 0 } else { 9 + h2_len(d) + spec_frame_off(d.subrange(9 + h2_len(d), d.len() as int), (k - 1) as nat) }
}
/// frames[i] is the i-th frame of d, for all i: written recursively over the suffix
pub open spec fn frames_match(fs: Seq<Http2Frame>, i: int, d: Seq<u8>, max: int) -> bool
    decreases fs.len() - i
{
    if i >= fs.len() { spec_split_count(d, max) == 0 }
    else {
        d.len() >= 9 && d.len() >= 9 + h2_len(d) && h2_len(d) <= max && frame_ok(fs[i], d)
        && frames_match(fs, i + 1, d.subrange(9 + h2_len(d), d.len() as int), max)
    }
}
/// fs[i..] are the complete frames at the start of d, and `rem` is what follows them
pub open spec fn frames_from(fs: Seq<Http2Frame>, i: int, d: Seq<u8>, max: int, rem: Seq<u8>) -> bool
    decreases fs.len() - i
{
    if i >= fs.len() { rem =~= d }
    else {
        d.len() >= 9 && d.len() >= 9 + h2_len(d) && h2_len(d) <= max && frame_ok(fs[i], d)
        && frames_from(fs, i + 1, d.subrange(9 + h2_len(d), d.len() as int), max, rem)
    }
}
pub proof fn lemma_frames_push(fs: Seq<Http2Frame>, i: int, d: Seq<u8>, max: int, rem: Seq<u8>, f: Http2Frame)
    requires
        0 <= i <= fs.len(),
        frames_from(fs, i, d, max, rem),
        rem.len() >= 9, rem.len() >= 9 + h2_len(rem), h2_len(rem) <= max, frame_ok(f, rem),
    ensures
        frames_from(fs.push(f), i, d, max, rem.subrange(9 + h2_len(rem), rem.len() as int)),
    decreases fs.len() - i,
{
    let fs2 = fs.push(f);
    if i < fs.len() {
        lemma_frames_push(fs, i + 1, d.subrange(9 + h2_len(d), d.len() as int), max, rem, f);
        assert(fs2[i] == fs[i]);
    } else {
        assert(rem =~= d);
        assert(fs2[i] == f);
        assert(frames_from(fs2, i + 1, d.subrange(9 + h2_len(d), d.len() as int), max, rem.subrange(9 + h2_len(rem), rem.len() as int)));
    }
}
pub proof fn lemma_frames_done(fs: Seq<Http2Frame>, i: int, d: Seq<u8>, max: int, rem: Seq<u8>)
    requires 0 <= i <= fs.len(), frames_from(fs, i, d, max, rem), spec_split_count(rem, max) == 0,
    ensures frames_match(fs, i, d, max),
    decreases fs.len() - i,
{
    if i < fs.len() {
        lemma_frames_done(fs, i + 1, d.subrange(9 + h2_len(d), d.len() as int), max, rem);
    }
}
// trusted stand-ins for the two external types inside Http2Parser that framing never touches
#[verifier::external_body]
pub struct Decoder<'a> { p: core::marker::PhantomData<&'a u8> }
#[verifier::external_type_specification]
#[verifier::external_body]
#[verifier::reject_recursive_types(T)]
pub struct ExRefCell<T: ?Sized>(core::cell::RefCell<T>);

// assumed specification of a std function vstd does not cover
// (stated only where T's clone is the identity on views: the units use it at T = u8)
pub assume_specification<T: Clone>[ <[T]>::to_vec ](s: &[T]) -> (r: Vec<T>)
    ensures r@.len() == s@.len(), forall|i: int| 0 <= i < s@.len() ==> cloned::<T>(s@[i], #[trigger] r@[i]);

// ---- header blocks (RFC 7540 section 6.2 HEADERS layout, section 6.10 CONTINUATION)
//   HEADERS payload = [Pad Length (8) if PADDED 0x8] [E + Stream Dependency (32) + Weight (8) if PRIORITY 0x20]
//                     Header Block Fragment (*) [Padding (Pad Length octets)]
pub open spec fn hb_padded(flags: u8) -> bool { flags & 0x8u8 != 0 }
pub open spec fn hb_priority(flags: u8) -> bool { flags & 0x20u8 != 0 }
pub open spec fn hb_start(flags: u8) -> int { (if hb_padded(flags) { 1int } else { 0int }) + (if hb_priority(flags) { 5int } else { 0int }) }
pub open spec fn hb_pad(p: Seq<u8>, flags: u8) -> int { if hb_padded(flags) && p.len() > 0 { p[0] as int } else { 0 } }
/// the payload is long enough for the fields its flags announce and for its padding
pub open spec fn hb_fragment_ok(p: Seq<u8>, flags: u8) -> bool { p.len() >= hb_start(flags) && hb_pad(p, flags) <= p.len() - hb_start(flags) }
pub open spec fn hb_fragment(p: Seq<u8>, flags: u8) -> Seq<u8> { p.subrange(hb_start(flags), p.len() - hb_pad(p, flags)) }

pub open spec fn hb_is_headers(sid: u32, f: Http2Frame) -> bool { f.stream_id == sid && f.frame_type == Http2FrameType::Headers }
pub open spec fn hb_is_cont(sid: u32, f: Http2Frame) -> bool { f.stream_id == sid && f.frame_type == Http2FrameType::Continuation }
/// a HEADERS frame of the stream among the first n frames is malformed
pub open spec fn hb_bad(sid: u32, fs: Seq<Http2Frame>, n: int) -> bool {
    exists|k: int| 0 <= k < n && hb_is_headers(sid, #[trigger] fs[k]) && !hb_fragment_ok(fs[k].payload@, fs[k].flags)
}
/// the header blocks of stream `sid` carried by the first n frames, in wire order:
/// a HEADERS frame opens a block with its fragment, a CONTINUATION frame extends the latest block
pub open spec fn hb_blocks(sid: u32, fs: Seq<Http2Frame>, n: int) -> Seq<Seq<u8>>
    decreases n
{
    if n <= 0 { Seq::empty() }
    else {
        let prev = hb_blocks(sid, fs, n - 1);
        let f = fs[n - 1];
        if hb_is_headers(sid, f) { prev.push(hb_fragment(f.payload@, f.flags)) }
        else if hb_is_cont(sid, f) {
            if prev.len() == 0 { seq![f.payload@] } else { prev.update(prev.len() - 1, prev[prev.len() - 1] + f.payload@) }
        }
        else { prev }
    }
}
/// exec blocks (completed ones + the one being built) against the spec
pub open spec fn hb_repr(blocks: Seq<Vec<u8>>, current: Seq<u8>, open: bool, spec_blocks: Seq<Seq<u8>>) -> bool {
    if open {
        spec_blocks.len() == blocks.len() + 1 && spec_blocks[blocks.len() as int] =~= current
        && forall|i: int| 0 <= i < blocks.len() ==> (#[trigger] blocks[i])@ =~= spec_blocks[i]
    } else {
        spec_blocks.len() == 0 && blocks.len() == 0 && current.len() == 0
    }
}
