// ---- C11 (HTTP side): bytes buffered by one direction of a flow
spec fn seg_total(s: Seq<TcpData>) -> int
    decreases s.len(),
{
    if s.len() == 0 { 0 } else { seg_total(s.drop_last()) + s.last().data@.len() }
}
spec fn sat_usize(x: int) -> int { if x > usize::MAX as int { usize::MAX as int } else { x } }
proof fn lemma_seg_total_push(s: Seq<TcpData>, x: TcpData)
    ensures seg_total(s.push(x)) == seg_total(s) + x.data@.len(),
{
    assert(s.push(x).drop_last() =~= s);
}
proof fn lemma_seg_total_nonneg(s: Seq<TcpData>)
    ensures seg_total(s) >= 0,
    decreases s.len(),
{
    if s.len() > 0 { lemma_seg_total_nonneg(s.drop_last()); }
}
proof fn lemma_seg_total_take(s: Seq<TcpData>, k: int)
    requires 0 <= k < s.len(),
    ensures seg_total(s.take(k + 1)) == seg_total(s.take(k)) + s[k].data@.len(),
{
    assert(s.take(k + 1).drop_last() =~= s.take(k));
}
