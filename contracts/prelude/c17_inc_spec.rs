// ---- C17 incremental extractor: views, assumed contracts of its two callees, step specification
pub open spec fn type_byte(t: Http2FrameType) -> u8 {
    match t {
        Http2FrameType::Data => 0, Http2FrameType::Headers => 1, Http2FrameType::Priority => 2, Http2FrameType::RstStream => 3,
        Http2FrameType::Settings => 4, Http2FrameType::PushPromise => 5, Http2FrameType::Ping => 6, Http2FrameType::GoAway => 7,
        Http2FrameType::WindowUpdate => 8, Http2FrameType::Continuation => 9, Http2FrameType::Unknown(b) => b,
    }
}
pub open spec fn frame_view(f: Http2Frame) -> FrameV {
    FrameV { ty: type_byte(f.frame_type), flags: f.flags, stream_id: f.stream_id, payload: f.payload@, length: f.length }
}
pub open spec fn frames_view(fs: Seq<Http2Frame>) -> Seq<FrameV> { Seq::new(fs.len(), |i: int| frame_view(fs[i])) }
/// the frames of a byte string, as values determined by the bytes alone
pub open spec fn spec_split(d: Seq<u8>, max: int) -> Seq<FrameV>
    decreases d.len()
{
    if d.len() < 9 || d.len() < 9 + h2_len(d) || h2_len(d) > max { Seq::<FrameV>::empty() }
    else {
        seq![FrameV { ty: d[3], flags: d[4], stream_id: h2_stream(d), payload: d.subrange(9, 9 + h2_len(d)), length: h2_len(d) as u32 }]
            + spec_split(d.subrange(9 + h2_len(d), d.len() as int), max)
    }
}
pub proof fn lemma_type_byte(b: u8)
    ensures type_byte(spec_frame_type(b)) == b,
{}
pub proof fn lemma_frames_view(fs: Seq<Http2Frame>, i: int, d: Seq<u8>, max: int)
    requires 0 <= i <= fs.len(), frames_match(fs, i, d, max),
    ensures frames_view(fs).subrange(i, fs.len() as int) =~= spec_split(d, max),
    decreases fs.len() - i,
{
    if i < fs.len() {
        let rest = d.subrange(9 + h2_len(d), d.len() as int);
        lemma_frames_view(fs, i + 1, rest, max);
        lemma_type_byte(d[3]);
        assert(frames_view(fs).subrange(i, fs.len() as int) =~= seq![frame_view(fs[i])] + frames_view(fs).subrange(i + 1, fs.len() as int));
        assert(frame_view(fs[i]).payload =~= d.subrange(9, 9 + h2_len(d)));
    } else {
        assert(spec_split_count(d, max) == 0);
    }
}
/// bytes occupied by the complete frames at the start of d
pub open spec fn spec_consumed(d: Seq<u8>, max: int) -> int
    decreases d.len()
{
    if d.len() < 9 || d.len() < 9 + h2_len(d) || h2_len(d) > max { 0 }
    else { 9 + h2_len(d) + spec_consumed(d.subrange(9 + h2_len(d), d.len() as int), max) }
}
pub proof fn lemma_consumed_le(d: Seq<u8>, max: int)
    ensures 0 <= spec_consumed(d, max) <= d.len(),
    decreases d.len(),
{
    if !(d.len() < 9 || d.len() < 9 + h2_len(d) || h2_len(d) > max) {
        lemma_consumed_le(d.subrange(9 + h2_len(d), d.len() as int), max);
    }
}
// ext: the Akamai fingerprint of a frame list (frame selection + string assembly + sha2): an
// uninterpreted function of the frames (ASSUMED: extract_akamai_fingerprint is deterministic)
// uninterpreted function of the frame VALUES (ASSUMED: extract_akamai_fingerprint is deterministic and
// looks only at type, flags, stream id, payload and length of each frame)
pub uninterp spec fn spec_fpv(frames: Seq<FrameV>) -> Option<AkamaiFingerprint>;
#[verifier::external_body]
pub fn extract_akamai_fingerprint(frames: &[Http2Frame]) -> (r: Option<AkamaiFingerprint>)
    ensures r == spec_fpv(frames_view(frames@)),
{ unimplemented!() }
pub open spec fn preface() -> Seq<u8> { seq![80u8, 82u8, 73u8, 32u8, 42u8, 32u8, 72u8, 84u8, 84u8, 80u8, 47u8, 50u8, 46u8, 48u8, 13u8, 10u8, 13u8, 10u8, 83u8, 77u8, 13u8, 10u8, 13u8, 10u8] }
pub open spec fn has_preface(b: Seq<u8>) -> bool { b.len() >= 24 && b.subrange(0, 24) =~= preface() }

pub struct XState { pub buf: Seq<u8>, pub off: int, pub done: bool }
pub open spec fn x_start(s: XState, data: Seq<u8>) -> int {
    if s.off == 0 && has_preface(s.buf + data) { 24 } else { s.off }
}

pub open spec fn skip_preface(b: Seq<u8>) -> Seq<u8> { if has_preface(b) { b.subrange(24, b.len() as int) } else { b } }
/// one add_bytes call as a function of the state and the chunk
pub open spec fn x_step(s: XState, data: Seq<u8>, max: int) -> (XState, Option<AkamaiFingerprint>) {
    if s.done { (s, None) } else {
        let b = s.buf + data;
        let start = x_start(s, data);
        let fd = b.subrange(start, b.len() as int);
        let used = spec_consumed(fd, max);
        // frames are consumed only once they yield a fingerprint; until then every call looks at
        // all complete frames received so far
        let fp = if used > 0 { spec_fpv(spec_split(fd, max)) } else { None };
        if fp is Some { (XState { buf: b, off: start + used, done: true }, fp) }
        else { (XState { buf: b, off: s.off, done: false }, None) }
    }
}
/// the one-shot fingerprint of a byte string (extract_akamai_fingerprint_from_bytes)
pub open spec fn one_shot(b: Seq<u8>, max: int) -> Option<AkamaiFingerprint> { spec_fpv(spec_split(skip_preface(b), max)) }
