// ---- C17 incremental extractor: views, assumed contracts of its two callees, step specification
pub open spec fn frame_view(f: Http2Frame) -> FrameV {
    FrameV { ty: 0, flags: f.flags, stream_id: f.stream_id, payload: f.payload@, length: f.length }
}
/// bytes occupied by the complete frames at the start of d
pub open spec fn spec_consumed(d: Seq<u8>, max: int) -> int
    decreases d.len()
{
    if d.len() < 9 || d.len() < 9 + h2_len(d) || h2_len(d) > max { 0 }
    else { 9 + h2_len(d) + spec_consumed(d.subrange(9 + h2_len(d), d.len() as int), max) }
}
pub proof fn lemma_consumed_le(d: Seq<u8>, max: int)
    ensures 0 <= spec_consumed(d, max) <= d.len(),
    decreases d.len(),
{
    if !(d.len() < 9 || d.len() < 9 + h2_len(d) || h2_len(d) > max) {
        lemma_consumed_le(d.subrange(9 + h2_len(d), d.len() as int), max);
    }
}
// ext: the Akamai fingerprint of a frame list (frame selection + string assembly + sha2): an
// uninterpreted function of the frames (ASSUMED: extract_akamai_fingerprint is deterministic)
pub uninterp spec fn spec_fp(frames: Seq<Http2Frame>) -> Option<AkamaiFingerprint>;
#[verifier::external_body]
pub fn extract_akamai_fingerprint(frames: &[Http2Frame]) -> (r: Option<AkamaiFingerprint>)
    ensures r == spec_fp(frames@),
{ unimplemented!() }
pub open spec fn preface() -> Seq<u8> { seq![80u8, 82u8, 73u8, 32u8, 42u8, 32u8, 72u8, 84u8, 84u8, 80u8, 47u8, 50u8, 46u8, 48u8, 13u8, 10u8, 13u8, 10u8, 83u8, 77u8, 13u8, 10u8, 13u8, 10u8] }
pub open spec fn has_preface(b: Seq<u8>) -> bool { b.len() >= 24 && b.subrange(0, 24) =~= preface() }

pub struct XState { pub buf: Seq<u8>, pub off: int, pub done: bool }
pub open spec fn x_start(s: XState, data: Seq<u8>) -> int {
    if s.off == 0 && has_preface(s.buf + data) { 24 } else { s.off }
}
