// ---- C18 (TCP pool): the hash (reduced modulo the worker count by dispatch) is a function of the
// sender's address alone for every frame that has one.
pub open spec fn tcp_fed(p: Seq<u8>) -> Seq<u8> {
    let s = ip_start(p);
    if p.len() < s + 20 { p }
    else {
        let ip = p.subrange(s, p.len() as int);
        let v = (ip[0] >> 4) & 0x0F;
        if v == 4 { ip.subrange(12, 16) }
        else if v == 6 { if ip.len() >= 24 { ip.subrange(8, 24) } else { p } }
        else { p }
    }
}
/// sender address of an Ethernet- or raw-framed IPv4/IPv6 packet
pub open spec fn source_of(p: Seq<u8>) -> Option<Seq<u8>> {
    let s = ip_start(p);
    if p.len() < s + 20 { None } else {
        let ip = p.subrange(s, p.len() as int);
        let v = (ip[0] >> 4) & 0x0F;
        if v == 4 { Some(ip.subrange(12, 16)) } else if v == 6 && ip.len() >= 40 { Some(ip.subrange(8, 24)) } else { None }
    }
}
pub proof fn lemma_c18_tcp_same_source_same_hash(p: Seq<u8>, q: Seq<u8>)
    requires source_of(p).is_some(), source_of(p) == source_of(q),
    ensures tcp_fed(p) == tcp_fed(q), tcp_fed(p) == source_of(p).unwrap(),
{
}
