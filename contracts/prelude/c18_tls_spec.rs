// ---- TLS dispatcher: malformed / non-TCP frames are discarded (None), otherwise the directed 4-tuple is hashed
pub open spec fn tls_fed_v4(ip: Seq<u8>) -> Option<Seq<Seq<u8>>> {
    if ip.len() < 20 || ip[9] != 6 { None }
    else {
        let t = ((ip[0] & 0x0F) as int) * 4;
        if ip.len() < t + 4 { None }
        else { Some(seq![ip.subrange(12, 16), ip.subrange(16, 20), port_enc(ip[t], ip[t + 1]), port_enc(ip[t + 2], ip[t + 3])]) }
    }
}
pub open spec fn tls_fed_v6(ip: Seq<u8>) -> Option<Seq<Seq<u8>>> {
    if ip.len() < 40 || ip[6] != 6 || ip.len() < 44 { None }
    else { Some(seq![ip.subrange(8, 24), ip.subrange(24, 40), port_enc(ip[40], ip[41]), port_enc(ip[42], ip[43])]) }
}
pub open spec fn tls_fed_frame(p: Seq<u8>) -> Option<Seq<Seq<u8>>> {
    let s = ip_start(p);
    if p.len() < s + 40 { None }
    else {
        let ip = p.subrange(s, p.len() as int);
        let v = (ip[0] >> 4) & 0x0F;
        if v == 4 { tls_fed_v4(ip) } else if v == 6 { tls_fed_v6(ip) } else { None }
    }
}
pub open spec fn tls_worker(fed: Option<Seq<Seq<u8>>>, n: usize) -> Option<usize> {
    match fed { Some(f) => Some(spec_worker(f, n)), None => None }
}
