// ---- TCP distance components as spec functions (penalties: High 0, Medium 1, Low 2).
// derived PartialEq on the db enums is structural equality (stated through vstd's PartialEqSpecImpl)
impl vstd::std_specs::cmp::PartialEqSpecImpl for IpVersion {
    open spec fn obeys_eq_spec() -> bool { true }
    open spec fn eq_spec(&self, other: &Self) -> bool { *self == *other }
}
impl vstd::std_specs::cmp::PartialEqSpecImpl for PayloadSize {
    open spec fn obeys_eq_spec() -> bool { true }
    open spec fn eq_spec(&self, other: &Self) -> bool { *self == *other }
}
impl vstd::std_specs::cmp::PartialEqSpecImpl for TcpOption {
    open spec fn obeys_eq_spec() -> bool { true }
    open spec fn eq_spec(&self, other: &Self) -> bool { *self == *other }
}
impl vstd::std_specs::cmp::PartialEqSpecImpl for Quirk {
    open spec fn obeys_eq_spec() -> bool { true }
    open spec fn eq_spec(&self, other: &Self) -> bool { *self == *other }
}

pub open spec fn sp_ipv(obs: IpVersion, sig: IpVersion) -> Option<u32> {
    if sig == IpVersion::Any || (obs == sig && obs != IpVersion::Any) { Some(0u32) } else { None }
}
pub open spec fn sp_ttl_initial(t: Ttl) -> int {
    match t { Ttl::Value(a) => a as int, Ttl::Guess(a) => a as int, Ttl::Bad(a) => a as int,
              Ttl::Distance(a, d) => if a + d > 255 { 255 } else { a + d } }
}
pub open spec fn sp_ttl(obs: Ttl, sig: Ttl) -> Option<u32> {
    match (obs, sig) {
        (Ttl::Value(a), Ttl::Value(b)) => Some(if a == b { 0u32 } else { 2u32 }),
        (Ttl::Distance(a1, a2), Ttl::Distance(b1, b2)) => Some(if a1 == b1 && a2 == b2 { 0u32 } else { 2u32 }),
        (Ttl::Guess(a), Ttl::Guess(b)) => Some(if a == b { 0u32 } else { 2u32 }),
        (Ttl::Bad(a), Ttl::Bad(b)) => Some(if a == b { 0u32 } else { 2u32 }),
        (Ttl::Distance(_, _), Ttl::Value(_)) | (Ttl::Guess(_), Ttl::Value(_)) | (Ttl::Value(_), Ttl::Distance(_, _)) | (Ttl::Value(_), Ttl::Guess(_)) =>
            Some(if sp_ttl_initial(obs) == sp_ttl_initial(sig) { 0u32 } else { 2u32 }),
        _ => None,
    }
}
pub open spec fn sp_win(obs: WindowSize, sig: WindowSize, mss: Option<u16>) -> Option<u32> {
    match (obs, sig) {
        (_, WindowSize::Any) => Some(0u32),
        (WindowSize::Mss(a), WindowSize::Mss(b)) => Some(if a == b { 0u32 } else { 2u32 }),
        (WindowSize::Mtu(a), WindowSize::Mtu(b)) => Some(if a == b { 0u32 } else { 2u32 }),
        (WindowSize::Value(a), WindowSize::Value(b)) => Some(if a == b { 0u32 } else { 2u32 }),
        (WindowSize::Mod(a), WindowSize::Mod(b)) => Some(if a == b { 0u32 } else { 2u32 }),
        (WindowSize::Value(a), WindowSize::Mss(b)) => Some(if mss is Some && mss.unwrap() != 0 && a as int / mss.unwrap() as int == b as int { 0u32 } else { 2u32 }),
        _ => None,
    }
}
pub open spec fn sp_pclass(obs: PayloadSize, sig: PayloadSize) -> Option<u32> {
    if sig == PayloadSize::Any || obs == sig { Some(0u32) } else { None }
}
pub open spec fn opt_u16_eq(a: Option<u16>, b: Option<u16>) -> bool { a == b }
/// the whole signature distance: accepted iff every component accepts; decisive components
/// (IP version, option layout, quirks, payload class) have no penalty, only accept/reject
pub open spec fn sp_tcp_distance(sig: Signature, obs: TcpObservation) -> Option<u32> {
    let v = sp_ipv(obs.version, sig.version);
    let t = sp_ttl(obs.ittl, sig.ittl);
    let w = sp_win(obs.wsize, sig.wsize, obs.mss);
    let p = sp_pclass(obs.pclass, sig.pclass);
    if v is None || t is None || w is None || p is None || obs.olayout@ != sig.olayout@ || obs.quirks@ != sig.quirks@ { None }
    else {
        Some((t.unwrap() as int
            + (if obs.olen == sig.olen { 0int } else { 2int })
            + (if sig.mss is None || obs.mss == sig.mss { 0int } else { 2int })
            + w.unwrap() as int
            + (if sig.wscale is None || obs.wscale == sig.wscale { 0int } else { 1int })) as u32)
    }
}
