// IpPacket of the tcp/http/tls crates holds pnet views
pub open spec fn pv_of(r: IpPacket) -> PV {
    match r { IpPacket::Ipv4(v) => PV::V4(v.bytes@), IpPacket::Ipv6(v) => PV::V6(v.bytes@), IpPacket::None => PV::No }
}
