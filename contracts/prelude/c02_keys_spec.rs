// ---- C02 (TCP index keys).  The option-layout component of a key is a string built with Display +
// join (rule R13): abstracted as an uninterpreted, deterministic function of the option sequence.
pub uninterp spec fn spec_display_all(s: Seq<TcpOption>) -> Seq<String>;
pub uninterp spec fn spec_join(s: Seq<String>, sep: Seq<char>) -> String;
#[verifier::external_body]
pub fn vx_display_all(v: &Vec<TcpOption>) -> (r: Vec<String>)
    ensures r@ == spec_display_all(v@),
{ unimplemented!() }
#[verifier::external_body]
pub fn vx_join(v: &Vec<String>, sep: &str) -> (r: String)
    ensures r == spec_join(v@, sep@),
{ unimplemented!() }
pub open spec fn okey(o: Seq<TcpOption>) -> String { spec_join(spec_display_all(o), ","@) }
pub open spec fn sp_versions(v: IpVersion) -> Seq<IpVersion> {
    if v == IpVersion::Any { seq![IpVersion::V4, IpVersion::V6] } else { seq![v] }
}
pub open spec fn sp_pclasses(v: PayloadSize) -> Seq<PayloadSize> {
    if v == PayloadSize::Any { seq![PayloadSize::Zero, PayloadSize::NonZero] } else { seq![v] }
}
pub open spec fn tkey(v: IpVersion, s: String, pc: PayloadSize) -> TcpIndexKey {
    TcpIndexKey { ip_version_key: v, olayout_key: s, pclass_key: pc }
}
/// the keys a signature is filed under: every (version, payload class) its wildcards stand for
pub open spec fn keys_cover(keys: Seq<TcpIndexKey>, sig: Signature) -> bool {
    &&& forall|i: int, j: int| 0 <= i < sp_versions(sig.version).len() && 0 <= j < sp_pclasses(sig.pclass).len() ==>
            keys.contains(tkey(#[trigger] sp_versions(sig.version)[i], okey(sig.olayout@), #[trigger] sp_pclasses(sig.pclass)[j]))
    &&& forall|k: int| 0 <= k < keys.len() ==> exists|i: int, j: int| 0 <= i < sp_versions(sig.version).len() && 0 <= j < sp_pclasses(sig.pclass).len()
            && #[trigger] keys[k] == tkey(sp_versions(sig.version)[i], okey(sig.olayout@), sp_pclasses(sig.pclass)[j])
}
pub proof fn lemma_push_contains<T>(s: Seq<T>, x: T)
    ensures forall|y: T| #[trigger] s.push(x).contains(y) == (s.contains(y) || y == x),
{
    assert forall|y: T| #[trigger] s.push(x).contains(y) == (s.contains(y) || y == x) by {
        if s.contains(y) { let i = choose|i: int| 0 <= i < s.len() && s[i] == y; assert(s.push(x)[i] == y); }
        if y == x { assert(s.push(x)[s.len() as int] == y); }
        if s.push(x).contains(y) { let i = choose|i: int| 0 <= i < s.push(x).len() && s.push(x)[i] == y; if i < s.len() { assert(s[i] == y); } }
    }
}
