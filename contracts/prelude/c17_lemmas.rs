// ---- C17 incremental: chunking lemma over x_step (add_bytes refines x_step, see its contract)
pub open spec fn cat_to(chunks: Seq<Seq<u8>>, k: int) -> Seq<u8>
    decreases k
{
    if k <= 0 { Seq::<u8>::empty() } else { cat_to(chunks, k - 1) + chunks[k - 1] }
}
pub open spec fn x_fresh() -> XState { XState { buf: Seq::<u8>::empty(), off: 0, done: false } }
pub open spec fn x_state(chunks: Seq<Seq<u8>>, k: int, max: int) -> XState
    decreases k
{
    if k <= 0 { x_fresh() } else { x_step(x_state(chunks, k - 1, max), chunks[k - 1], max).0 }
}
pub open spec fn x_out(chunks: Seq<Seq<u8>>, k: int, max: int) -> Option<AkamaiFingerprint> {
    x_step(x_state(chunks, k - 1, max), chunks[k - 1], max).1
}
/// chunk k (1-based) is the first one after which the received bytes contain a complete frame
pub open spec fn first_frame_at(chunks: Seq<Seq<u8>>, k: int, max: int) -> bool {
    1 <= k <= chunks.len() && spec_consumed(skip_preface(cat_to(chunks, k)), max) > 0
    && forall|j: int| 0 <= j < k ==> spec_consumed(skip_preface(#[trigger] cat_to(chunks, j)), max) == 0
}
pub proof fn lemma_x_before_first_frame(chunks: Seq<Seq<u8>>, k: int, max: int)
    requires
        0 <= k <= chunks.len(),
        forall|j: int| 0 <= j <= k ==> spec_consumed(skip_preface(#[trigger] cat_to(chunks, j)), max) == 0,
    ensures
        x_state(chunks, k, max) == (XState { buf: cat_to(chunks, k), off: 0, done: false }),
        forall|j: int| 1 <= j <= k ==> #[trigger] x_out(chunks, j, max) is None,
    decreases k,
{
    if k > 0 {
        lemma_x_before_first_frame(chunks, k - 1, max);
        let s = x_state(chunks, k - 1, max);
        let b = s.buf + chunks[k - 1];
        assert(b =~= cat_to(chunks, k));
        assert(b.subrange(x_start(s, chunks[k - 1]), b.len() as int) =~= skip_preface(b));
        assert(x_out(chunks, k, max) is None);
    }
}
/// C17 (incremental == one-shot), for connections whose first complete frames already yield a
/// fingerprint (RFC 7540 3.5: the client's first frame is SETTINGS): for every division of the
/// stream into chunks, nothing is reported before chunk k, chunk k reports exactly the one-shot
/// fingerprint of the bytes received so far, and nothing is reported afterwards.
pub proof fn lemma_c17_chunking(chunks: Seq<Seq<u8>>, k: int, max: int)
    requires
        first_frame_at(chunks, k, max),
        one_shot(cat_to(chunks, k), max) is Some,
    ensures
        forall|j: int| 1 <= j < k ==> #[trigger] x_out(chunks, j, max) is None,
        x_out(chunks, k, max) == one_shot(cat_to(chunks, k), max),
        forall|j: int| k < j <= chunks.len() ==> #[trigger] x_out(chunks, j, max) is None,
{
    lemma_x_before_first_frame(chunks, k - 1, max);
    let s = x_state(chunks, k - 1, max);
    let b = s.buf + chunks[k - 1];
    assert(b =~= cat_to(chunks, k));
    assert(b.subrange(x_start(s, chunks[k - 1]), b.len() as int) =~= skip_preface(b));
    assert(x_state(chunks, k, max).done);
    assert forall|j: int| k < j <= chunks.len() implies #[trigger] x_out(chunks, j, max) is None by {
        lemma_x_done_stays(chunks, k, j - 1, max);
    }
}
pub proof fn lemma_x_done_stays(chunks: Seq<Seq<u8>>, k: int, j: int, max: int)
    requires 0 <= k <= j <= chunks.len(), x_state(chunks, k, max).done,
    ensures x_state(chunks, j, max).done,
    decreases j - k,
{
    if j > k { lemma_x_done_stays(chunks, k, j - 1, max); }
}
