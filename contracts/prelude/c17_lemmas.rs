// ---- C17 incremental: chunking lemma over x_step (add_bytes refines x_step, see its contract)
pub open spec fn cat_to(chunks: Seq<Seq<u8>>, k: int) -> Seq<u8>
    decreases k
{
    if k <= 0 { Seq::<u8>::empty() } else { cat_to(chunks, k - 1) + chunks[k - 1] }
}
pub open spec fn x_fresh() -> XState { XState { buf: Seq::<u8>::empty(), off: 0, done: false } }
pub open spec fn x_state(chunks: Seq<Seq<u8>>, k: int, max: int) -> XState
    decreases k
{
    if k <= 0 { x_fresh() } else { x_step(x_state(chunks, k - 1, max), chunks[k - 1], max).0 }
}
pub open spec fn x_out(chunks: Seq<Seq<u8>>, k: int, max: int) -> Option<AkamaiFingerprint> {
    x_step(x_state(chunks, k - 1, max), chunks[k - 1], max).1
}
/// Inductive invariant: as long as nothing was reported the extractor holds exactly the bytes
/// received so far and has consumed nothing.
pub proof fn lemma_x_not_done(chunks: Seq<Seq<u8>>, k: int, max: int)
    requires
        0 <= k <= chunks.len(),
        forall|j: int| 1 <= j <= k ==> #[trigger] x_out(chunks, j, max) is None,
    ensures
        x_state(chunks, k, max) == (XState { buf: cat_to(chunks, k), off: 0, done: false }),
    decreases k,
{
    if k > 0 {
        lemma_x_not_done(chunks, k - 1, max);
        let s = x_state(chunks, k - 1, max);
        assert(s.buf + chunks[k - 1] =~= cat_to(chunks, k));
        assert(x_out(chunks, k, max) is None);
    }
}
/// C17 (incremental == one-shot): for EVERY division of the stream into chunks, the first chunk at
/// which the extractor reports anything reports exactly the one-shot fingerprint of the bytes
/// received up to and including that chunk, and nothing is reported afterwards.
pub proof fn lemma_c17_chunking(chunks: Seq<Seq<u8>>, k: int, max: int)
    requires
        1 <= k <= chunks.len(),
        forall|j: int| 1 <= j < k ==> #[trigger] x_out(chunks, j, max) is None,
    ensures
        x_out(chunks, k, max) is Some ==> x_out(chunks, k, max) == one_shot(cat_to(chunks, k), max),
        // conversely the extractor reports as soon as the one-shot fingerprint of the received bytes exists
        one_shot(cat_to(chunks, k), max) is Some ==> x_out(chunks, k, max) == one_shot(cat_to(chunks, k), max),
        x_out(chunks, k, max) is Some ==> forall|j: int| k < j <= chunks.len() ==> #[trigger] x_out(chunks, j, max) is None,
{
    lemma_x_not_done(chunks, k - 1, max);
    let s = x_state(chunks, k - 1, max);
    let b = s.buf + chunks[k - 1];
    assert(b =~= cat_to(chunks, k));
    assert(b.subrange(x_start(s, chunks[k - 1]), b.len() as int) =~= skip_preface(b));
    // a byte string without a complete frame has no frames, and no fingerprint comes from no frames
    lemma_no_frames_no_fingerprint(skip_preface(b), max);
    let fd = b.subrange(x_start(s, chunks[k - 1]), b.len() as int);
    assert(fd =~= skip_preface(b));
    lemma_no_frames_no_fingerprint(fd, max);
    lemma_consumed_le(fd, max);
    assert(one_shot(cat_to(chunks, k), max) == spec_fpv(spec_split(fd, max)));
    if one_shot(cat_to(chunks, k), max) is Some {
        assert(spec_consumed(fd, max) > 0);
        assert(x_step(s, chunks[k - 1], max).1 == spec_fpv(spec_split(fd, max)));
    }
    if x_out(chunks, k, max) is Some {
        assert(x_state(chunks, k, max).done);
        assert forall|j: int| k < j <= chunks.len() implies #[trigger] x_out(chunks, j, max) is None by {
            lemma_x_done_stays(chunks, k, j - 1, max);
        }
    }
}
pub proof fn lemma_x_done_stays(chunks: Seq<Seq<u8>>, k: int, j: int, max: int)
    requires 0 <= k <= j <= chunks.len(), x_state(chunks, k, max).done,
    ensures x_state(chunks, j, max).done,
    decreases j - k,
{
    if j > k { lemma_x_done_stays(chunks, k, j - 1, max); }
}
/// ASSUMED about the external extractor (it requires a SETTINGS frame): no frames, no fingerprint
#[verifier::external_body]
pub proof fn axiom_no_frames_no_fingerprint()
    ensures spec_fpv(Seq::<FrameV>::empty()) is None,
{}
pub proof fn lemma_no_frames_no_fingerprint(d: Seq<u8>, max: int)
    ensures spec_consumed(d, max) == 0 ==> spec_fpv(spec_split(d, max)) is None,
{
    axiom_no_frames_no_fingerprint();
    if d.len() < 9 || d.len() < 9 + h2_len(d) || h2_len(d) > max {
        assert(spec_split(d, max) =~= Seq::<FrameV>::empty());
    } else {
        // a complete first frame occupies at least its 9 header bytes
        lemma_consumed_le(d.subrange(9 + h2_len(d), d.len() as int), max);
        assert(h2_len(d) >= 0);
        assert(spec_consumed(d, max) >= 9);
    }
}
