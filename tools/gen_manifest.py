#!/usr/bin/env python3
"""Regenerate MANIFEST.json from props/*.toml (claimed) and props/not_applicable.toml."""
import json, os, tomllib, glob
V = os.path.dirname(os.path.dirname(os.path.abspath(__file__)))
props = [json.loads(l) for l in open(os.path.join(V, 'properties.jsonl'))]
na = tomllib.load(open(os.path.join(V, 'props', 'not_applicable.toml'), 'rb'))
checks, napp = [], []
for p in props:
    pid = p['id']
    f = os.path.join(V, 'props', f'{pid}.toml')
    if os.path.exists(f) and pid not in na:
        s = tomllib.load(open(f, 'rb'))
        if s.get('claimed', True):
            checks.append({
                'property_id': pid,
                'quick_cmd': f'./check {pid} --tier quick',
                'thorough_cmd': f'./check {pid} --tier thorough',
                'evidence_file': f'/verif/evidence/{pid}.json',
                'replay_cmd_template': f'./check {pid} --replay {{path}}',
                'engine': 'vx',
                'level_claimed': {'category': s.get('level', 'proof'), 'text': s['claim_text'], 'design_ref': f'DESIGN.md section 5, {pid}'},
                'level_note': s['level_note'],
                'technique': s.get('technique', 'contract-based deductive verification (Verus on extracted functions; Kani function-level proofs on an annotated scratch copy)'),
            })
            continue
    reason = na.get(pid, {}).get('reason', 'check under construction (see DESIGN.md section 5)')
    napp.append({'property_id': pid, 'reason': reason})
m = {
    'version': 1,
    'setup_cmd': './tools/setup.sh',
    'hooks': {'guard': 'huginn_net_verif',
              'enable': 'no hooks in /repo: checks annotate a scratch copy (Kani: #[cfg(kani)] modules and cfg_attr(kani, ..) contracts) or extract functions (Verus) on every run',
              'baseline_off_cmd': 'cd /repo && cargo test --workspace --no-fail-fast --offline',
              'source_commits': [], 'add_only': True},
    'engines': [{'name': 'vx', 'path': '/verif/vx', 'serves_properties': [c['property_id'] for c in checks],
                 'kind_free_text': 'extract+weave contracts into single-file Verus units; annotate scratch copy and run Kani/CBMC; verdict + evidence writer'}],
    'checks': checks,
    'notes': 'exit 0 = all obligations discharged (KNOWN-FINDING lines for listed findings); exit 1 = VIOLATION; exit 2 = undecided (tool limit / lost anchor), never an alarm. Known findings: /verif/known_findings.json.',
    'not_applicable': napp,
}
json.dump(m, open(os.path.join(V, 'MANIFEST.json'), 'w'), indent=1)
print(len(checks), 'checks;', len(napp), 'not applicable')
