#!/usr/bin/env python3
"""Run the registered checks against seeded property-breaking changes, on a scratch copy of /repo.

usage: tools/run_seeded.py <seeded-id> [<seeded-id> ...] [--tier quick|thorough]
For each /verif/seeded/<id>/ (patch.diff + meta.json with "properties": [...]): copy /repo's HEAD
to a scratch directory, apply the patch, run ./check for every listed property with VX_REPO
pointing at the copy (evidence and replay files go to a scratch directory, never to
/verif/evidence), record exit codes and VIOLATION lines in seeded/<id>/result.json."""
import json, os, subprocess, sys, shutil, time
V = os.path.dirname(os.path.dirname(os.path.abspath(__file__)))
tier = 'quick'
ids = []
args = sys.argv[1:]
while args:
    a = args.pop(0)
    if a == '--tier':
        tier = args.pop(0)
    else:
        ids.append(a)
for sid in ids:
    d = os.path.join(V, 'seeded', sid)
    meta = json.load(open(os.path.join(d, 'meta.json')))
    root = f'/var/tmp/vx/seeded-{sid}'
    shutil.rmtree(root, ignore_errors=True)
    os.makedirs(root + '/repo')
    subprocess.run(f'git -C /repo archive HEAD | tar -x -C {root}/repo', shell=True, check=True)
    r = subprocess.run(['git', 'apply', '--unsafe-paths', '--directory', root + '/repo', os.path.join(d, 'patch.diff')], capture_output=True, text=True, cwd=root + '/repo')
    if r.returncode != 0:
        r = subprocess.run(['patch', '-p1', '-i', os.path.join(d, 'patch.diff')], capture_output=True, text=True, cwd=root + '/repo')
    res = {'id': sid, 'tier': tier, 'applied': r.returncode == 0, 'checks': {}}
    if r.returncode != 0:
        res['apply_error'] = (r.stdout + r.stderr)[-800:]
    else:
        for pid in meta.get('run_checks', meta['properties']):
            env = dict(os.environ, VX_REPO=root + '/repo', VX_WORK=root + '/work', VX_EVIDENCE=root + '/evidence')
            t0 = time.time()
            c = subprocess.run([os.path.join(V, 'check'), pid, '--tier', tier], capture_output=True, text=True, env=env, cwd=V)
            lines = [l for l in c.stdout.splitlines() if l.startswith(('VIOLATION', 'obligation', 'KNOWN-FINDING')) ]
            und = [l[:300] for l in c.stderr.splitlines() if l.startswith('UNDECIDED')]
            res['checks'][pid] = {'exit': c.returncode, 'wall_s': round(time.time() - t0, 1), 'lines': lines[:12], 'undecided': und[:6]}
            print(sid, pid, 'exit', c.returncode, [l for l in lines if l.startswith('obligation')][:3], und[:2])
    json.dump(res, open(os.path.join(d, 'result.json'), 'w'), indent=1)
    shutil.rmtree(root, ignore_errors=True)
