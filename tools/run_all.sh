#!/bin/sh
# run every registered check (quick tier) on /repo and print a one-line summary per property
cd "$(dirname "$0")/.." || exit 1
for p in $(python3 -c "import json;print(' '.join(c['property_id'] for c in json.load(open('MANIFEST.json'))['checks']))"); do
  ./check $p --tier ${1:-quick} > work/$p.out 2> work/$p.err; echo "$p exit=$? $(tail -1 work/$p.out)"
done
