#!/usr/bin/env python3
"""Confirm a seeded change: (1) the unedited test suite passes with it, (2) its demonstration fails
with it, (3) the demonstration passes without it.  Works on a scratch copy of /repo's HEAD."""
import json, os, subprocess, sys, shutil, re
V = os.path.dirname(os.path.dirname(os.path.abspath(__file__)))
TARGET = '/var/tmp/vx/confirm-target'
def run(cmd, cwd):
    env = dict(os.environ, CARGO_TARGET_DIR=TARGET)
    return subprocess.run(cmd, shell=True, cwd=cwd, capture_output=True, text=True, env=env)
def counts(out):
    ok = len(re.findall(r'^test .* \.\.\. ok$', out, re.M)); bad = re.findall(r'^test (.*) \.\.\. FAILED$', out, re.M)
    return ok, bad
for sid in sys.argv[1:]:
    d = os.path.join(V, 'seeded', sid)
    m = json.load(open(d + '/meta.json'))
    root = f'/var/tmp/vx/confirm-{sid}'
    shutil.rmtree(root, ignore_errors=True); os.makedirs(root)
    subprocess.run(f'git -C /repo archive HEAD | tar -x -C {root}', shell=True, check=True)
    # fresh mtimes: cargo keys path packages relative to the workspace root, so a copy with old mtimes could
    # silently reuse the artifact of an earlier (changed) copy
    subprocess.run(f"find {root} -type f \\( -name '*.rs' -o -name '*.toml' \\) -exec touch {{}} +", shell=True, check=True)
    shutil.copy(os.path.join(d, m['demo_file']), os.path.join(root, m['demo_dest']))
    r0 = run(m['demo_cmd'], root); ok0, bad0 = counts(r0.stdout)
    ap = subprocess.run(['git', 'apply', os.path.join(d, 'patch.diff')], cwd=root, capture_output=True, text=True)
    if ap.returncode != 0:
        ap = subprocess.run(['patch', '-p1', '-i', os.path.join(d, 'patch.diff')], cwd=root, capture_output=True, text=True)
    r1 = run(m['demo_cmd'], root); ok1, bad1 = counts(r1.stdout)
    os.remove(os.path.join(root, m['demo_dest']))
    rs = run('cargo test --workspace --no-fail-fast --offline', root); oks, bads = counts(rs.stdout)
    # timing-dependent worker-pool tests flake when the machine is loaded: a test that fails in the full run
    # but passes when re-run on its own (three times) is counted as passing, and recorded
    flaky = []
    for t in list(bads):
        if t == 'test_golden_pcap_snapshots':
            continue
        if all(not counts(run(f'cargo test --workspace --offline {t}', root).stdout)[1] for _ in range(3)):
            bads.remove(t); oks += 1; flaky.append(t)
    m['confirmed'] = {'patch_applies': ap.returncode == 0, 'demo_without_change': {'ok': ok0, 'failed': bad0},
                      'demo_with_change': {'ok': ok1, 'failed': bad1}, 'suite_with_change': {'ok': oks, 'failed': bads, 'passed_on_isolated_rerun': flaky},
                      'verdict': bool(ap.returncode == 0 and ok0 > 0 and not bad0 and bad1 and bads in ([], ['test_golden_pcap_snapshots']))}
    json.dump(m, open(d + '/meta.json', 'w'), indent=1)
    print(sid, m['confirmed']['verdict'], 'demo w/o:', ok0, bad0, 'demo with:', ok1, len(bad1), 'suite:', oks, bads)
    shutil.rmtree(root, ignore_errors=True)
