#!/usr/bin/env python3
"""Write seeded/INDEX.md from the meta.json / result.json of every seeded change."""
import json, os, glob
V = os.path.dirname(os.path.dirname(os.path.abspath(__file__)))
rows = []
for d in sorted(glob.glob(os.path.join(V, 'seeded', '*', 'meta.json'))):
    m = json.load(open(d))
    rp = os.path.join(os.path.dirname(d), 'result.json')
    r = json.load(open(rp)) if os.path.exists(rp) else {'checks': {}}
    conf = (m.get('confirmed') or {}).get('verdict')
    outs = []
    for pid, c in r.get('checks', {}).items():
        obs = [l.split(' refuted')[0].replace('obligation ', '') for l in c['lines'] if l.startswith('obligation')]
        if pid in m.get('breaks', m['properties']):
            verdict = {0: 'MISSED (exit 0)', 1: 'caught', 2: 'undecided (exit 2)'}.get(c['exit'], str(c['exit']))
        else:  # a neighbouring property that shares code with the change but is not broken by it
            verdict = {0: 'quiet, as it should be (not broken)', 1: 'also flags it', 2: 'undecided (exit 2), no alarm'}.get(c['exit'], str(c['exit']))
        outs.append(f"{pid}: {verdict}" + (f" — {', '.join(obs[:3])}" if obs else '') + (f" — {c['undecided'][0][21:140]}" if c['exit'] == 2 and c['undecided'] else ''))
    if r.get('applied') is False:
        outs = ['patch no longer applies to /repo HEAD (the code it changed was repaired); see the port with the suffix b']
    rows.append((m['id'], ', '.join(m.get('breaks', m['properties'])), m['needs'], 'yes' if conf else ('no' if conf is False else '?'), '<br>'.join(outs)))
with open(os.path.join(V, 'seeded', 'INDEX.md'), 'w') as f:
    f.write('# Seeded property-breaking changes\n\nEach directory holds `patch.diff`, the demonstration, the author\'s notes, `meta.json` (what it needs to manifest, my confirmation run) and `result.json` (what the registered checks said, quick tier, on a scratch copy with the patch applied).\n\n')
    f.write('| id | breaks | needs | confirmed (suite passes, demo fails with / passes without) | registered checks |\n|---|---|---|---|---|\n')
    for r in rows:
        f.write('| ' + ' | '.join(r) + ' |\n')
stale = sum(1 for r in rows if 'no longer applies' in r[4])
caught = sum(1 for r in rows if 'caught' in r[4]); missed = sum(1 for r in rows if 'MISSED' in r[4] and 'caught' not in r[4]); und = len(rows) - caught - missed - stale
print(f'{len(rows)} seeded changes: {caught} caught, {und} undecided only, {missed} missed, {stale} superseded')
