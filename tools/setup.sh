#!/bin/sh
# Offline setup: nothing to build for the engine itself (python + pre-installed verus/kani).
# Warm the Kani dependency cache so that the first check does not pay for it (optional; failures ignored).
cd "$(dirname "$0")/.." || exit 1
mkdir -p evidence work .cache
python3 -c "import tomllib" || exit 1
command -v verus >/dev/null || { echo "verus missing"; exit 1; }
command -v cargo-kani >/dev/null || { echo "cargo-kani missing"; exit 1; }
exit 0
