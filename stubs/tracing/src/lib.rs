//! No-op stand-in for `tracing` used only inside the Kani scratch copy.
//! Assumption recorded in every evidence file: log macros have no effect on results
//! (their arguments are side-effect-free format arguments).
#[macro_export]
macro_rules! trace { ($($t:tt)*) => {{}}; }
#[macro_export]
macro_rules! debug { ($($t:tt)*) => {{}}; }
#[macro_export]
macro_rules! info { ($($t:tt)*) => {{}}; }
#[macro_export]
macro_rules! warn { ($($t:tt)*) => {{}}; }
#[macro_export]
macro_rules! error { ($($t:tt)*) => {{}}; }
