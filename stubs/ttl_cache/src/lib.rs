//! Vec-backed stand-in for `ttl_cache::TtlCache`, used only inside the Kani scratch
//! copy by harnesses that need a *value* of the type.  ASSUMED CONTRACT on a dependency:
//! insert/get/get_mut/remove/contains_key behave as a finite map with FIFO capacity
//! eviction; entries never expire during a harness (the harnesses cover sequences far
//! shorter than any TTL).  Every obligation relying on it is tagged `assumes:ttl_cache-model`.
use std::borrow::Borrow;
use std::time::Duration;

pub struct TtlCache<K, V> {
    cap: usize,
    items: Vec<(K, V)>,
}

impl<K: Eq, V> TtlCache<K, V> {
    pub fn new(capacity: usize) -> Self {
        TtlCache { cap: capacity, items: Vec::new() }
    }
    fn pos<Q: ?Sized>(&self, k: &Q) -> Option<usize>
    where
        K: Borrow<Q>,
        Q: Eq,
    {
        let mut i = 0;
        while i < self.items.len() {
            if self.items[i].0.borrow() == k {
                return Some(i);
            }
            i += 1;
        }
        None
    }
    pub fn contains_key<Q: ?Sized>(&self, k: &Q) -> bool
    where
        K: Borrow<Q>,
        Q: Eq,
    {
        self.pos(k).is_some()
    }
    pub fn insert(&mut self, k: K, v: V, _ttl: Duration) -> Option<V> {
        if let Some(i) = self.pos(&k) {
            let (_, old) = self.items.remove(i);
            self.items.push((k, v));
            return Some(old);
        }
        if self.cap == 0 {
            return None;
        }
        if self.items.len() >= self.cap {
            self.items.remove(0);
        }
        self.items.push((k, v));
        None
    }
    pub fn get<Q: ?Sized>(&self, k: &Q) -> Option<&V>
    where
        K: Borrow<Q>,
        Q: Eq,
    {
        match self.pos(k) {
            Some(i) => Some(&self.items[i].1),
            None => None,
        }
    }
    pub fn get_mut<Q: ?Sized>(&mut self, k: &Q) -> Option<&mut V>
    where
        K: Borrow<Q>,
        Q: Eq,
    {
        match self.pos(k) {
            Some(i) => Some(&mut self.items[i].1),
            None => None,
        }
    }
    pub fn remove<Q: ?Sized>(&mut self, k: &Q) -> Option<V>
    where
        K: Borrow<Q>,
        Q: Eq,
    {
        match self.pos(k) {
            Some(i) => Some(self.items.remove(i).1),
            None => None,
        }
    }
    pub fn capacity(&self) -> usize {
        self.cap
    }
    pub fn clear(&mut self) {
        self.items.clear();
    }
    pub fn len_for_verification(&self) -> usize {
        self.items.len()
    }
}
